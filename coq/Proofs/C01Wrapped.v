(* C01: the resource-level round trip for struct-backed resources, composed
   from the value-level lemmas and the wrapper history theorem (C17). *)
From Coq Require Import Lia Permutation.
From JV Require Import Model.Base Model.GoTime Gen.TypeGo Model.Schema Model.Value
  Model.Strconv Model.Json Model.Attr Model.SoftRes Model.Wrapper Model.Resource Model.C14
  Model.Marshal Model.Unmarshal
  Proofs.BaseFacts Proofs.MapFacts Proofs.C14Facts Proofs.C06Facts Proofs.SoftFacts
  Proofs.WrapperFacts Proofs.C17Facts Proofs.C01Facts Proofs.C01Full Proofs.C11Order.
Open Scope list_scope.

(** * The loops of UnmarshalResource on a wrapper are a sequence of Set calls *)
Lemma bind_assoc {A B C} (r : res A) (f : A -> res B) (g : B -> res C) :
  bind (bind r f) g = bind r (fun x => bind (f x) g).
Proof. destruct r; reflexivity. Qed.

Lemma wrapper_run_app w ops1 ops2 :
  wrapper_run w (ops1 ++ ops2) = bind (wrapper_run w ops1) (fun w1 => wrapper_run w1 ops2).
Proof.
  revert w. induction ops1 as [|[k v] ops1 IH]; intros w; cbn; [reflexivity|].
  destruct (wrapper_set w k v) as [w1| |]; cbn; [apply IH|reflexivity|reflexivity].
Qed.

Section Loops.
  Variables (e : stdenv) (t : type).

  Definition dec_attr (kj : str * json) : value :=
    match lookup (fst kj) (tattrs t) with
    | Some a => match unmarshal_to_type e a (snd kj) with Ok v => v | _ => VNil end
    | None => VNil
    end.

  Lemma set_attrs_run : forall L w,
    (forall k j, In (k, j) L -> exists a v, lookup k (tattrs t) = Some a /\ aname a = k /\
                                             unmarshal_to_type e a j = Ok v) ->
    set_attrs e t (RWrap w) L =
    bind (wrapper_run w (map (fun kj => (fst kj, dec_attr kj)) L)) (fun w' => Ok (RWrap w')).
  Proof.
    induction L as [|[k j] L IH]; intros w H; cbn [set_attrs map wrapper_run]; [reflexivity|].
    destruct (H k j (or_introl eq_refl)) as [a [v [El [Hn Hu]]]].
    rewrite El, Hu. cbn [bind res_set fst snd]. unfold dec_attr at 1. cbn [fst snd]. rewrite El, Hu, Hn.
    rewrite bind_assoc. destruct (wrapper_set w k v) as [w1| |]; cbn [bind]; try reflexivity.
    apply IH. intros k' j' Hin. apply (H k' j'). right; exact Hin.
  Qed.

  Definition dec_rel (krs : str * relske) : value :=
    match lookup (fst krs) (trels t), rs_data (snd krs) with
    | Some x, Some d =>
        if to_one x then match dec_identifier d with Some i => VStr (i_id i) | None => VNil end
        else match dec_identifiers d with Some l => VStrs false (ids_of l) | None => VNil end
    | _, _ => VNil
    end.

  Lemma set_rels_run : forall R w,
    (forall k rs, In (k, rs) R -> exists x d, lookup k (trels t) = Some x /\ from_name x = k /\
                    rs_data rs = Some d /\
                    (if to_one x then exists i, dec_identifier d = Some i
                     else exists l, dec_identifiers d = Some l)) ->
    set_rels t (RWrap w) R =
    bind (wrapper_run w (map (fun krs => (fst krs, dec_rel krs)) R)) (fun w' => Ok (RWrap w')).
  Proof.
    induction R as [|[k rs] R IH]; intros w H; cbn [set_rels map wrapper_run]; [reflexivity|].
    destruct (H k rs (or_introl eq_refl)) as [x [d [El [Hn [Hd Hdec]]]]].
    rewrite El, Hd. unfold dec_rel at 1. cbn [fst snd]. rewrite El, Hd.
    destruct (to_one x).
    - destruct Hdec as [i Hi]. rewrite Hi, Hn. cbn [res_set]. rewrite bind_assoc.
      destruct (wrapper_set w k (VStr (i_id i))) as [w1| |]; cbn [bind]; try reflexivity.
      apply IH. intros k' rs' Hin. apply (H k' rs'). right; exact Hin.
    - destruct Hdec as [l Hl]. rewrite Hl, Hn. cbn [res_set]. rewrite bind_assoc.
      destruct (wrapper_set w k (VStrs false (ids_of l))) as [w1| |]; cbn [bind]; try reflexivity.
      apply IH. intros k' rs' Hin. apply (H k' rs'). right; exact Hin.
  Qed.
End Loops.

(** the value set last under distinct keys *)
Lemma last_set_nodup ops : NoDup (map fst ops) -> forall f, last_set ops f = lookup f ops.
Proof.
  induction ops as [|[k v] ops IH]; intros Hn f; cbn; [reflexivity|].
  apply NoDup_cons_iff in Hn. destruct Hn as [Hk Hn]. rewrite (IH Hn).
  rewrite (String.eqb_sym f k).
  destruct (String.eqb_spec k f) as [->|N].
  - assert (E : lookup f ops = None) by (apply lookup_None_notin; exact Hk). rewrite E. reflexivity.
  - destruct (lookup f ops); reflexivity.
Qed.

(** * generic facts about the marshaled member maps *)
Lemma fold_set_lookup_inv {A} (nm : A -> str) (g : A -> json) (l : list (str * A)) k v :
  NoDup (map (fun kv => nm (snd kv)) l) ->
  lookup k (fold_set nm g l []) = Some v ->
  exists kv, In kv l /\ nm (snd kv) = k /\ v = g (snd kv).
Proof.
  intros Hn H. rewrite fold_set_lookup_any in H by exact Hn.
  destruct (find _ l) as [kv|] eqn:E; [|discriminate]. injection H as <-.
  apply find_some in E. destruct E as [Hin He]. apply String.eqb_eq in He.
  exists kv. auto.
Qed.

Lemma filter_all {A} (p : A -> bool) (l : list A) : (forall x, In x l -> p x = true) -> filter p l = l.
Proof.
  induction l as [|x l IH]; cbn; intros H; [reflexivity|].
  rewrite (H x (or_introl eq_refl)). f_equal. apply IH. intros y Hy. apply H. right; exact Hy.
Qed.

(** values: what Get reads from a slot, and what comes back *)
Definition reading_ok (e : stdenv) (a : attr) (rv : value) : Prop :=
  (rv = VNil /\ anull a = true) \/ (in_domain e a rv /\ read_slot rv = rv).

Definition same_reading (rv rv' : value) : Prop :=
  (rv = VNil /\ rv' = VNil) \/ same_value rv rv'.

Lemma typed_has_type k n v :
  (1 <= k <= 14)%Z -> kind_of_value v = (k, n) -> value_has_type (GTAttr k n) v = true.
Proof.
  intros Hk Hv. unfold value_has_type. rewrite Hv.
  rewrite Z.eqb_refl, Bool.eqb_reflx. destruct (Z.eqb_spec k 0); [lia|reflexivity].
Qed.

(** one attribute value through print, parse, Set and Get *)
Lemma reading_roundtrip e a rv :
  (1 <= acode a <= 14)%Z -> reading_ok e a rv ->
  exists v', unmarshal_to_type e a (json_of_value e rv) = Ok v' /\
             value_has_type (GTAttr (acode a) (anull a)) v' = true /\ v' <> VNil /\
             same_reading rv (read_slot v').
Proof.
  intros Hc [[-> Hn]|[Hd Hr]].
  - assert (Hz : zero_value (acode a) (anull a) = VPtr (acode a) None).
    { unfold zero_value. rewrite Hn.
      destruct (Z.leb_spec 1 (acode a)); [|lia]. destruct (Z.leb_spec (acode a) 14); [|lia]. reflexivity. }
    exists (zero_value (acode a) (anull a)). split; [|split; [|split]].
    + cbn [json_of_value]. unfold unmarshal_to_type. rewrite Hn. reflexivity.
    + rewrite Hz. apply typed_has_type; [exact Hc|]. cbn. rewrite Hn. reflexivity.
    + rewrite Hz. discriminate.
    + left. split; [reflexivity|]. rewrite Hz. reflexivity.
  - destruct (attr_roundtrip e a rv Hc Hd) as [v' [Hu Hs]].
    pose proof (unmarshal_typed e a _ v' Hc Hu) as Hk.
    exists v'. split; [exact Hu|]. split; [apply typed_has_type; assumption|]. split.
    + intros ->. cbn in Hk. injection Hk as H0 _. lia.
    + right. destruct v' as [| | | | | |k1 [y|]|]; try exact Hs.
      (* a nil pointer cannot be "the same value" as a reading that is not one *)
      exfalso. destruct rv as [| | | | | |k0 [x|]|]; cbn in Hs, Hr; try contradiction; try discriminate.
Qed.

Lemma lookup_app' {A} k (a b : list (str * A)) :
  lookup k (a ++ b) = match lookup k a with Some v => Some v | None => lookup k b end.
Proof. induction a as [|[k0 v0] a IH]; cbn; [reflexivity|]. destruct (String.eqb k k0); [reflexivity|exact IH]. Qed.

Lemma lookup_map_pair {A B} (g : str * A -> B) k (l : list (str * A)) :
  lookup k (map (fun kj => (fst kj, g kj)) l) =
  match lookup k l with Some j => Some (g (k, j)) | None => None end.
Proof.
  induction l as [|[k0 j0] l IH]; cbn; [reflexivity|].
  destruct (String.eqb_spec k k0) as [->|N]; [reflexivity|exact IH].
Qed.

Lemma map_fst_pair {A B} (g : str * A -> B) (l : list (str * A)) :
  map fst (map (fun kj => (fst kj, g kj)) l) = map fst l.
Proof. rewrite map_map. apply map_ext. reflexivity. Qed.

Lemma NoDup_app_disjoint {A} (l1 l2 : list A) :
  NoDup l1 -> NoDup l2 -> (forall x, In x l1 -> In x l2 -> False) -> NoDup (l1 ++ l2).
Proof.
  induction l1 as [|x l1 IH]; cbn; intros H1 H2 Hd; [exact H2|].
  apply NoDup_cons_iff in H1. destruct H1 as [Hx H1]. constructor.
  - intros Hin. apply in_app_or in Hin. destruct Hin as [Hin|Hin]; [contradiction|].
    apply (Hd x); [left; reflexivity|exact Hin].
  - apply IH; [exact H1|exact H2|]. intros y Hy1 Hy2. apply (Hd y); [right; exact Hy1|exact Hy2].
Qed.

Section WrappedRoundTrip.
  Variables (e : stdenv) (sc : sch) (w : wrapper) (prepath : str)
            (reldata : list (str * list str)) (want : list str).
  Let d := w_desc w.
  Let t := mkType (w_typ w) (w_attrs w) (w_rels w).
  Hypothesis Hst : wstate_ok w.
  Hypothesis Hwf : wf_res_type t.
  Hypothesis Hname : w_typ w <> "".
  Hypothesis Hget : get_type (sch_schema sc) (w_typ w) = t.
  Hypothesis Hwr : lookup (w_typ w) (sch_wrapped sc) = Some d.
  Hypothesis Hnew : wrap_new d = Ok (mkWrapper d (zero_vals d) (w_typ w) (w_attrs w) (w_rels w)).
  Hypothesis Hsa : forall n a, In (n, a) (w_attrs w) ->
    exists f v0, slot_value w n = Some (f, v0) /\ sf_type f = GTAttr (acode a) (anull a) /\
                 reading_ok e a (read_slot v0).
  Hypothesis Hsr : forall n x, In (n, x) (w_rels w) ->
    exists f v0, slot_value w n = Some (f, v0) /\ sf_type f = slot_type_of_rel x /\
                 (if to_one x then exists s, v0 = VStr s else exists nn l, v0 = VStrs nn l).
  Hypothesis Hwant : lookup (w_typ w) reldata = Some want.
  Hypothesis Hall : forall k, In k (map fst (w_rels w)) -> In k want.

  Let r := RWrap w.
  Let id := wrapper_get_id w.

  (** names *)
  Lemma wattr_facts n a : In (n, a) (w_attrs w) -> aname a = n /\ n <> "" /\ n <> "id" /\ valid_code (acode a).
  Proof.
    intros Hin. destruct Hwf as [[[_ Ha] _] [_ [Hia _]]]. destruct (Ha n a Hin) as [-> [Hne Hvc]].
    split; [reflexivity|]. split; [exact Hne|]. split; [|exact Hvc].
    intros E. apply Hia. cbn [tattrs t]. rewrite <- E. apply in_map_iff. exists (aname a, a). auto.
  Qed.

  Lemma wrel_facts n x : In (n, x) (w_rels w) -> from_name x = n /\ n <> "" /\ n <> "id".
  Proof.
    intros Hin. destruct Hwf as [[_ [_ Hr]] [_ [_ Hir]]]. destruct (Hr n x Hin) as [-> [Hne _]].
    split; [reflexivity|]. split; [exact Hne|].
    intros E. apply Hir. cbn [trels t]. rewrite <- E. apply in_map_iff. exists (from_name x, x). auto.
  Qed.

  Lemma get_field n f v0 : n <> "" -> n <> "id" -> slot_value w n = Some (f, v0) ->
    res_get r n = Ok (read_slot v0).
  Proof.
    intros Hne Hid Hs. cbn [res_get r]. unfold wrapper_get. apply String.eqb_neq in Hid. rewrite Hid.
    rewrite wrapper_get_field_spec by (apply Hst || exact Hne). rewrite Hs. reflexivity.
  Qed.

  Lemma get_attr n a : In (n, a) (w_attrs w) ->
    exists rv, res_get r (aname a) = Ok rv /\ reading_ok e a rv.
  Proof.
    intros Hin. destruct (wattr_facts n a Hin) as [Hn [Hne [Hid _]]].
    destruct (Hsa n a Hin) as [f [v0 [Hs [_ Hok]]]]. exists (read_slot v0).
    split; [rewrite Hn; apply (get_field n f v0); assumption|exact Hok].
  Qed.

  Lemma get_rel n x : In (n, x) (w_rels w) -> rel_read_ok r x /\
    exists v, res_get r (from_name x) = Ok v /\
              (if to_one x then exists s, v = VStr s else exists nn l, v = VStrs nn l).
  Proof.
    intros Hin. destruct (wrel_facts n x Hin) as [Hn [Hne Hid]].
    destruct (Hsr n x Hin) as [f [v0 [Hs [_ Hv]]]].
    assert (Hg : res_get r (from_name x) = Ok (read_slot v0)) by (rewrite Hn; apply (get_field n f v0); assumption).
    unfold rel_read_ok. destruct (to_one x).
    - destruct Hv as [s ->]. split; [exists s; exact Hg|exists (VStr s); split; [exact Hg|eauto]].
    - destruct Hv as [nn [l ->]]. split; [exists nn, l; exact Hg|exists (VStrs nn l); split; [exact Hg|eauto]].
  Qed.

  Lemma attrs_nodup : NoDup (map (fun kv : str * attr => aname (snd kv)) (w_attrs w)).
  Proof.
    destruct Hwf as [[[Hnd Ha] _] _]. cbn [tattrs t] in *.
    replace (map (fun kv : str * attr => aname (snd kv)) (w_attrs w)) with (map fst (w_attrs w)); [exact Hnd|].
    apply map_ext_in. intros [k a] Hin. cbn. apply (Ha k a Hin).
  Qed.

  Lemma rels_nodup : NoDup (map (fun kv : str * rel => from_name (snd kv)) (w_rels w)).
  Proof.
    destruct Hwf as [[_ [Hnd Hr]] _]. cbn [trels t] in *.
    replace (map (fun kv : str * rel => from_name (snd kv)) (w_rels w)) with (map fst (w_rels w)); [exact Hnd|].
    apply map_ext_in. intros [k x] Hin. cbn. apply (Hr k x Hin).
  Qed.

  Let A := fold_set aname (attr_json_of e r) (w_attrs w) [].
  Let Rl := fold_set from_name (rel_json_of r prepath (w_typ w) id want) (w_rels w) [].

  Lemma marshal_attrs_w : marshal_attrs e r (soft_fields t) (res_attrs r) [] = Ok A.
  Proof.
    change (res_attrs r) with (w_attrs w).
    rewrite (marshal_attrs_fold e r (soft_fields t) (w_attrs w) []).
    - unfold A. f_equal. f_equal. apply filter_all. intros [k a] Hin. cbn [snd].
      apply mem_str_In. unfold soft_fields. apply in_or_app. left. cbn [tattrs t].
      apply in_map_iff. exists (k, a). auto.
    - intros [k a] Hin. destruct (get_attr k a Hin) as [rv [Hg _]]. exists rv. exact Hg.
  Qed.

  Lemma marshal_rels_w :
    marshal_rels r prepath (w_typ w) id (soft_fields t) want (res_rels r) [] = Ok Rl.
  Proof.
    change (res_rels r) with (w_rels w).
    rewrite (marshal_rels_fold r prepath (w_typ w) id (soft_fields t) want (w_rels w) []).
    - unfold Rl. f_equal. f_equal. apply filter_all. intros [k x] Hin. cbn [snd].
      apply mem_str_In. unfold soft_fields. apply in_or_app. right. cbn [trels t].
      apply in_map_iff. exists (k, x). auto.
    - intros [k x] Hin. apply (get_rel k x Hin).
  Qed.

  Lemma A_NoDup_w : NoDup (map fst A).
  Proof. apply fold_set_NoDup. constructor. Qed.
  Lemma Rl_NoDup_w : NoDup (map fst Rl).
  Proof. apply fold_set_NoDup. constructor. Qed.

  Lemma A_lookup_w k j : lookup k A = Some j ->
    exists a rv, In (k, a) (w_attrs w) /\ res_get r k = Ok rv /\ reading_ok e a rv /\ j = json_of_value e rv.
  Proof.
    intros El. destruct (fold_set_lookup_inv aname (attr_json_of e r) (w_attrs w) k j attrs_nodup El)
      as [[k0 a] [Hin [Hk Hj]]]. cbn [snd] in *.
    destruct (wattr_facts k0 a Hin) as [Hn _]. assert (E : k0 = k) by congruence. rewrite E in Hin, Hn. clear E.
    destruct (get_attr k a Hin) as [rv [Hg Hok]]. rewrite Hn in Hg.
    exists a, rv. split; [exact Hin|]. split; [exact Hg|]. split; [exact Hok|].
    rewrite Hj. unfold attr_json_of. rewrite Hn, Hg. reflexivity.
  Qed.

  Lemma A_complete_w k a : In (k, a) (w_attrs w) -> exists j, lookup k A = Some j.
  Proof.
    intros Hin. destruct (wattr_facts k a Hin) as [Hn _]. exists (attr_json_of e r a).
    rewrite <- Hn. exact (fold_set_lookup aname (attr_json_of e r) (w_attrs w) [] (k, a) attrs_nodup Hin).
  Qed.

  (** the data member written for a relationship *)
  Definition rel_data_w (x : rel) : json :=
    match res_get r (from_name x) with
    | Ok (VStr s) => if String.eqb s "" then JNull else identifier_json s (to_type x)
    | Ok (VStrs _ ids) => JArr (map (fun i => identifier_json i (to_type x)) (isort String.ltb ids))
    | _ => JNull
    end.

  Lemma rel_json_w k x : In (k, x) (w_rels w) ->
    rel_json_of r prepath (w_typ w) id want x =
    jobj [("links", rel_links prepath (w_typ w) id (from_name x)); ("data", rel_data_w x)].
  Proof.
    intros Hin. destruct (wrel_facts k x Hin) as [Hn _].
    destruct (get_rel k x Hin) as [_ [v [Hg Hv]]].
    assert (Hw : mem_str (from_name x) want = true).
    { apply mem_str_In. apply Hall. rewrite Hn. apply in_map_iff. exists (k, x). auto. }
    unfold rel_json_of, marshal_rel, rel_data_w. rewrite Hw. cbn [negb].
    destruct (to_one x).
    - destruct Hv as [s ->]. unfold get_str. rewrite Hg. reflexivity.
    - destruct Hv as [nn [l ->]]. unfold get_strs. rewrite Hg. reflexivity.
  Qed.

  Lemma Rl_lookup_w k j : lookup k Rl = Some j ->
    exists x, In (k, x) (w_rels w) /\
      j = jobj [("links", rel_links prepath (w_typ w) id (from_name x)); ("data", rel_data_w x)].
  Proof.
    intros El. destruct (fold_set_lookup_inv from_name (rel_json_of r prepath (w_typ w) id want) (w_rels w) k j rels_nodup El)
      as [[k0 x] [Hin [Hk Hj]]]. cbn [snd] in *.
    destruct (wrel_facts k0 x Hin) as [Hn _]. assert (E : k0 = k) by congruence. rewrite E in Hin, Hn. clear E.
    exists x. split; [exact Hin|]. rewrite Hj. apply (rel_json_w k x Hin).
  Qed.

  Lemma Rl_complete_w k x : In (k, x) (w_rels w) -> exists j, lookup k Rl = Some j.
  Proof.
    intros Hin. destruct (wrel_facts k x Hin) as [Hn _]. exists (rel_json_of r prepath (w_typ w) id want x).
    rewrite <- Hn. exact (fold_set_lookup from_name (rel_json_of r prepath (w_typ w) id want) (w_rels w) [] (k, x) rels_nodup Hin).
  Qed.

  Let L := merge_raw (isort key_lt A) [].
  Let Rs := merge_map (map (fun kv => (fst kv, relske_of (snd kv))) (isort key_lt Rl)) [].

  Lemma L_lookup_w k : lookup k L = lookup k A.
  Proof.
    unfold L. rewrite merge_raw_is_map, merge_map_lookup by (apply isort_NoDup, A_NoDup_w).
    rewrite isort_lookup by apply A_NoDup_w. destruct (lookup k A); reflexivity.
  Qed.
  Lemma L_NoDup_w : NoDup (map fst L).
  Proof. unfold L. rewrite merge_raw_is_map. apply merge_map_NoDup. constructor. Qed.

  Lemma Rs_lookup_w k : lookup k Rs = option_map relske_of (lookup k Rl).
  Proof.
    unfold Rs. rewrite merge_map_lookup.
    - rewrite lookup_map_snd, isort_lookup by apply Rl_NoDup_w. destruct (lookup k Rl); reflexivity.
    - rewrite map_fst_map_snd. apply isort_NoDup, Rl_NoDup_w.
  Qed.
  Lemma Rs_NoDup_w : NoDup (map fst Rs).
  Proof. apply merge_map_NoDup. constructor. Qed.

  Lemma merge_rels_Rs_w : merge_rels (isort key_lt Rl) [] = Some Rs.
  Proof.
    apply merge_rels_is_map. intros k v Hin.
    assert (Hin' : In (k, v) Rl) by (eapply Permutation_in; [apply isort_keys_perm|exact Hin]).
    apply (In_lookup _ _ _ Rl_NoDup_w) in Hin'. destruct (Rl_lookup_w k v Hin') as [x [_ ->]].
    reflexivity.
  Qed.

  Lemma Rs_entry k rs : In (k, rs) Rs ->
    exists x, In (k, x) (w_rels w) /\ rs = mkRelSke (Some (rel_data_w x)).
  Proof.
    intros Hin. apply (In_lookup _ _ _ Rs_NoDup_w) in Hin. rewrite Rs_lookup_w in Hin.
    destruct (lookup k Rl) as [j|] eqn:El; [|discriminate]. cbn in Hin. injection Hin as <-.
    destruct (Rl_lookup_w k j El) as [x [Hx ->]]. exists x. split; [exact Hx|reflexivity].
  Qed.

  (** * the decoded Set calls *)
  Let w0 := mkWrapper d (zero_vals d) (w_typ w) (w_attrs w) (w_rels w).
  Let aops := map (fun kj : str * json => (fst kj, dec_attr e t kj)) L.
  Let rops := map (fun krs : str * relske => (fst krs, dec_rel t krs)) Rs.

  Lemma w0_ok : wstate_ok w0.
  Proof. split; [exact (proj1 Hst)|]. cbn [w_vals w_desc w0]. unfold zero_vals. apply map_length. Qed.

  Lemma slot_w0 n f v0 : slot_value w n = Some (f, v0) ->
    exists v00, get_slot (by_json n) d (zero_vals d) = Some (f, v00).
  Proof.
    intros Hs. unfold slot_value in Hs.
    apply (get_slot_field (by_json n) d (w_vals w) (zero_vals d) f v0); [|exact Hs].
    rewrite (proj2 Hst). unfold zero_vals. symmetry. apply map_length.
  Qed.

  Lemma attr_lookup_t k a : In (k, a) (w_attrs w) -> lookup k (tattrs t) = Some a.
  Proof. intros Hin. apply In_lookup; [exact (proj1 (proj1 (proj1 Hwf)))|exact Hin]. Qed.

  Lemma rel_lookup_t k x : In (k, x) (w_rels w) -> lookup k (trels t) = Some x.
  Proof. intros Hin. apply In_lookup; [exact (proj1 (proj2 (proj1 Hwf)))|exact Hin]. Qed.

  Lemma L_entry k j : In (k, j) L ->
    exists a rv v', In (k, a) (w_attrs w) /\ res_get r k = Ok rv /\
      unmarshal_to_type e a j = Ok v' /\ dec_attr e t (k, j) = v' /\
      value_has_type (GTAttr (acode a) (anull a)) v' = true /\ v' <> VNil /\
      same_reading rv (read_slot v').
  Proof.
    intros Hin. apply (In_lookup _ _ _ L_NoDup_w) in Hin. rewrite L_lookup_w in Hin.
    destruct (A_lookup_w k j Hin) as [a [rv [Ha [Hg [Hok ->]]]]].
    destruct (wattr_facts k a Ha) as [_ [_ [_ Hvc]]].
    destruct (reading_roundtrip e a rv Hvc Hok) as [v' [Hu [Hty [Hnn Hsame]]]].
    exists a, rv, v'. repeat split; try assumption.
    unfold dec_attr. cbn [fst snd]. rewrite (attr_lookup_t k a Ha), Hu. reflexivity.
  Qed.

  Lemma rel_decoded k x : In (k, x) (w_rels w) ->
    exists v v', res_get r k = Ok v /\ dec_rel t (k, mkRelSke (Some (rel_data_w x))) = v' /\
      value_has_type (slot_type_of_rel x) v' = true /\ v' <> VNil /\ same_rel v v' /\
      (if to_one x then exists i, dec_identifier (rel_data_w x) = Some i
       else exists l, dec_identifiers (rel_data_w x) = Some l).
  Proof.
    intros Hin. destruct (wrel_facts k x Hin) as [Hn _].
    destruct (get_rel k x Hin) as [_ [v [Hg Hv]]]. rewrite Hn in Hg.
    unfold dec_rel. cbn [fst snd rs_data]. rewrite (rel_lookup_t k x Hin).
    unfold rel_data_w, slot_type_of_rel. rewrite Hn, Hg.
    destruct (to_one x).
    - destruct Hv as [s ->]. exists (VStr s), (VStr s). split; [reflexivity|].
      destruct (String.eqb_spec s "") as [->|N]; cbn; repeat split; try discriminate; eauto.
    - destruct Hv as [nn [l ->]]. exists (VStrs nn l), (VStrs false (isort String.ltb l)).
      split; [reflexivity|]. rewrite identifiers_roundtrip, ids_of_map.
      repeat split; try discriminate; [apply Permutation_sym, isort_perm|eauto].
  Qed.

  Lemma aops_ok : Forall (wrapper_op_ok (w_desc w0) (w_vals w0)) aops.
  Proof.
    apply Forall_forall. intros [k v] Hin. unfold aops in Hin. apply in_map_iff in Hin.
    destruct Hin as [[k0 j] [E Hin]]. cbn [fst] in E. injection E as <- <-.
    destruct (L_entry k0 j Hin) as [a [rv [v' [Ha [_ [_ [Hd [Hty [Hnn _]]]]]]]]].
    destruct (wattr_facts k0 a Ha) as [_ [Hne [Hid _]]].
    destruct (Hsa k0 a Ha) as [f [v0 [Hs [Hft _]]]]. destruct (slot_w0 k0 f v0 Hs) as [v00 Hs0].
    right. cbn [fst snd]. split; [exact Hid|]. split; [exact Hne|].
    exists f, v00. split; [exact Hs0|]. right. rewrite Hd, Hft. exact Hty.
  Qed.

  Lemma rops_ok : Forall (wrapper_op_ok (w_desc w0) (w_vals w0)) rops.
  Proof.
    apply Forall_forall. intros [k v] Hin. unfold rops in Hin. apply in_map_iff in Hin.
    destruct Hin as [[k0 rs] [E Hin]]. cbn [fst] in E. injection E as <- <-.
    destruct (Rs_entry k0 rs Hin) as [x [Hx ->]].
    destruct (rel_decoded k0 x Hx) as [v [v' [_ [Hd [Hty [Hnn _]]]]]].
    destruct (wrel_facts k0 x Hx) as [_ [Hne Hid]].
    destruct (Hsr k0 x Hx) as [f [v0 [Hs [Hft _]]]]. destruct (slot_w0 k0 f v0 Hs) as [v00 Hs0].
    right. cbn [fst snd]. split; [exact Hid|]. split; [exact Hne|].
    exists f, v00. split; [exact Hs0|]. right. rewrite Hd, Hft. exact Hty.
  Qed.

  Let ops := ("id", VStr id) :: aops ++ rops.

  Lemma ops_ok : Forall (wrapper_op_ok (w_desc w0) (w_vals w0)) ops.
  Proof.
    constructor; [left; cbn; split; [reflexivity|eauto]|].
    apply Forall_app. split; [exact aops_ok|exact rops_ok].
  Qed.

  Lemma ops_keys : map fst ops = "id" :: map fst L ++ map fst Rs.
  Proof. unfold ops, aops, rops. cbn [map fst]. rewrite map_app, !map_fst_pair. reflexivity. Qed.

  Lemma L_keys k : In k (map fst L) -> exists a, In (k, a) (w_attrs w).
  Proof.
    intros Hin. apply in_map_iff in Hin. destruct Hin as [[k0 j] [E Hin]]. cbn in E. subst k0.
    destruct (L_entry k j Hin) as [a [_ [_ [Ha _]]]]. eauto.
  Qed.

  Lemma Rs_keys k : In k (map fst Rs) -> exists x, In (k, x) (w_rels w).
  Proof.
    intros Hin. apply in_map_iff in Hin. destruct Hin as [[k0 rs] [E Hin]]. cbn in E. subst k0.
    destruct (Rs_entry k rs Hin) as [x [Hx _]]. eauto.
  Qed.

  Lemma ops_nodup : NoDup (map fst ops).
  Proof.
    rewrite ops_keys. constructor.
    - intros Hin. apply in_app_or in Hin. destruct Hin as [Hin|Hin].
      + destruct (L_keys _ Hin) as [a Ha]. destruct (wattr_facts _ a Ha) as [_ [_ [Hid _]]]. congruence.
      + destruct (Rs_keys _ Hin) as [x Hx]. destruct (wrel_facts _ x Hx) as [_ [_ Hid]]. congruence.
    - apply NoDup_app_disjoint; [exact L_NoDup_w|exact Rs_NoDup_w|].
      intros k H1 H2. destruct (L_keys k H1) as [a Ha]. destruct (Rs_keys k H2) as [x Hx].
      destruct Hwf as [_ [Hdisj _]]. apply (Hdisj k); cbn [tattrs trels t].
      + apply in_map_iff. exists (k, a). auto.
      + apply in_map_iff. exists (k, x). auto.
  Qed.

  Lemma ops_lookup_attr k j : In (k, j) L -> lookup k ops = Some (dec_attr e t (k, j)).
  Proof.
    intros Hin. destruct (L_entry k j Hin) as [a [_ [_ [Ha _]]]].
    destruct (wattr_facts k a Ha) as [_ [_ [Hid _]]].
    unfold ops. cbn [lookup]. apply String.eqb_neq in Hid. rewrite Hid.
    rewrite lookup_app'. unfold aops. rewrite lookup_map_pair.
    rewrite (In_lookup _ _ _ L_NoDup_w Hin). reflexivity.
  Qed.

  Lemma ops_lookup_rel k rs : In (k, rs) Rs -> lookup k ops = Some (dec_rel t (k, rs)).
  Proof.
    intros Hin. destruct (Rs_entry k rs Hin) as [x [Hx _]].
    destruct (wrel_facts k x Hx) as [_ [_ Hid]].
    unfold ops. cbn [lookup]. apply String.eqb_neq in Hid. rewrite Hid.
    rewrite lookup_app'. unfold aops. rewrite lookup_map_pair.
    assert (E : lookup k L = None).
    { apply lookup_None_notin. intros H. destruct (L_keys k H) as [a Ha].
      destruct Hwf as [_ [Hdisj _]]. apply (Hdisj k); cbn [tattrs trels t].
      - apply in_map_iff. exists (k, a). auto.
      - apply in_map_iff. exists (k, x). auto. }
    rewrite E. unfold rops. rewrite lookup_map_pair. rewrite (In_lookup _ _ _ Rs_NoDup_w Hin). reflexivity.
  Qed.

  Theorem wrapped_resource_roundtrip :
    exists j w',
      marshal_resource e r prepath (soft_fields t) reldata = Ok j /\
      unmarshal_resource e sc j = Ok (RWrap w') /\
      w_typ w' = w_typ w /\ w_attrs w' = w_attrs w /\ w_rels w' = w_rels w /\
      res_get (RWrap w') "id" = res_get r "id" /\
      (forall n a, In (n, a) (w_attrs w) ->
         exists rv rv', res_get r n = Ok rv /\ res_get (RWrap w') n = Ok rv' /\ same_reading rv rv') /\
      (forall n x, In (n, x) (w_rels w) ->
         exists v v', res_get r n = Ok v /\ res_get (RWrap w') n = Ok v' /\ same_rel v v').
  Proof.
    (* ---- marshaling *)
    assert (Hm : marshal_resource e r prepath (soft_fields t) reldata =
                 Ok (jobj ([("id", jstr id); ("type", jstr (w_typ w));
                            ("links", jobj [("self", jstr (self_link prepath (w_typ w) id))])]
                           ++ (match A with [] => [] | _ => [("attributes", jobj A)] end)
                           ++ (match Rl with [] => [] | _ => [("relationships", jobj Rl)] end)))).
    { unfold marshal_resource, get_str. cbn [res_get r]. unfold wrapper_get. cbn [String.eqb Ascii.eqb Bool.eqb bind].
      fold id. change (res_type_name (RWrap w)) with (w_typ w). fold r.
      rewrite marshal_attrs_w. cbn [bind]. change (res_type_name r) with (w_typ w).
      rewrite Hwant. rewrite marshal_rels_w. cbn [bind]. reflexivity. }
    (* ---- the Set calls, as one history on the new struct *)
    destruct (wrapper_history_gen ops w0 w0_ok ops_ok) as [w' [Hrun [Hw' [Hd' Hget']]]].
    pose proof Hrun as Hrun0.
    unfold ops in Hrun. cbn [wrapper_run] in Hrun.
    destruct (wrapper_set w0 "id" (VStr id)) as [w1| |] eqn:E1; cbn [bind] in Hrun; try discriminate.
    rewrite wrapper_run_app in Hrun.
    destruct (wrapper_run w1 aops) as [w2| |] eqn:E2; cbn [bind] in Hrun; try discriminate.
    exists (jobj ([("id", jstr id); ("type", jstr (w_typ w));
                   ("links", jobj [("self", jstr (self_link prepath (w_typ w) id))])]
                  ++ (match A with [] => [] | _ => [("attributes", jobj A)] end)
                  ++ (match Rl with [] => [] | _ => [("relationships", jobj Rl)] end))), w'.
    split; [exact Hm|]. split.
    { unfold unmarshal_resource.
      rewrite (dec_resske_marshaled id (w_typ w) _ A Rl Rs merge_rels_Rs_w).
      cbn [k_type k_id k_attrs k_rels]. rewrite Hget. cbn [tname t].
      apply String.eqb_neq in Hname. rewrite Hname.
      unfold type_new. change (tname t) with (w_typ w). rewrite Hwr, Hnew. cbn [bind res_set]. fold w0. rewrite E1. cbn [bind].
      fold L. rewrite (set_attrs_run e t L w1).
      - fold aops. rewrite E2. cbn [bind]. rewrite (set_rels_run t Rs w2).
        + fold rops. rewrite Hrun. reflexivity.
        + intros k rs Hin. destruct (Rs_entry k rs Hin) as [x [Hx ->]].
          destruct (wrel_facts k x Hx) as [Hn _].
          destruct (rel_decoded k x Hx) as [_ [_ [_ [_ [_ [_ [_ Hdec]]]]]]].
          exists x, (rel_data_w x). split; [apply rel_lookup_t; exact Hx|]. split; [exact Hn|]. split; [reflexivity|exact Hdec].
      - intros k j Hin. destruct (L_entry k j Hin) as [a [_ [v' [Ha [_ [Hu _]]]]]].
        destruct (wattr_facts k a Ha) as [Hn _].
        exists a, v'. split; [apply attr_lookup_t; exact Ha|]. split; [exact Hn|exact Hu]. }
    (* ---- what the new struct holds *)
    assert (Hstatic : w_typ w' = w_typ w /\ w_attrs w' = w_attrs w /\ w_rels w' = w_rels w).
    { assert (G : forall ops0 wa wb, wrapper_run wa ops0 = Ok wb ->
                  w_typ wb = w_typ wa /\ w_attrs wb = w_attrs wa /\ w_rels wb = w_rels wa).
      { induction ops0 as [|[k v] ops0 IH]; intros wa wb; cbn.
        - intros H; injection H as <-. auto.
        - destruct (wrapper_set wa k v) as [wc| |] eqn:Es; cbn; try discriminate.
          intros H. destruct (IH _ _ H) as [H1 [H2 H3]].
          assert (Hs : w_typ wc = w_typ wa /\ w_attrs wc = w_attrs wa /\ w_rels wc = w_rels wa).
          { unfold wrapper_set in Es. destruct (String.eqb k "id").
            - unfold wrapper_set_id in Es. destruct (get_slot _ _ _) as [[f0 v0]|]; [|discriminate].
              destruct (sf_type f0) as [kk nn| |]; try discriminate.
              destruct kk as [|p|p]; try discriminate. destruct p; try discriminate. destruct nn; try discriminate.
              cbn [bind] in Es. unfold wrapper_set_field in Es. destruct (String.eqb k ""); [discriminate|].
              cbn [w_desc w_vals] in Es. destruct (get_slot _ _ _) as [[f1 v1]|]; [|discriminate].
              destruct (negb (sf_exported f1)); [discriminate|].
              destruct v; try (destruct (value_has_type _ _); [|discriminate]); injection Es as <-; auto.
            - unfold wrapper_set_field in Es. destruct (String.eqb k ""); [discriminate|].
              destruct (get_slot _ _ _) as [[f1 v1]|]; [|discriminate].
              destruct (negb (sf_exported f1)); [discriminate|].
              destruct v; try (destruct (value_has_type _ _); [|discriminate]); injection Es as <-; auto. }
          destruct Hs as [S1 [S2 S3]]. repeat split; congruence. }
      exact (G ops w0 w' Hrun0). }
    destruct Hstatic as [T1 [T2 T3]].
    split; [exact T1|]. split; [exact T2|]. split; [exact T3|].
    assert (Hlast : forall f, last_set ops f = lookup f ops) by (apply last_set_nodup; exact ops_nodup).
    split.
    { cbn [res_get r]. rewrite (Hget' "id") by discriminate. rewrite Hlast.
      unfold ops. cbn [lookup String.eqb Ascii.eqb Bool.eqb].
      unfold wrapper_get. cbn [String.eqb Ascii.eqb Bool.eqb]. reflexivity. }
    split.
    - intros n a Ha. destruct (A_complete_w n a Ha) as [j Hj].
      assert (HinL : In (n, j) L) by (apply lookup_In; rewrite L_lookup_w; exact Hj).
      destruct (L_entry n j HinL) as [a' [rv [v' [Ha' [Hg [_ [Hd [_ [Hnn Hsame]]]]]]]]].
      destruct (wattr_facts n a Ha) as [_ [Hne [Hid _]]].
      destruct (Hsa n a Ha) as [f [v0 [Hs _]]]. destruct (slot_w0 n f v0 Hs) as [v00 Hs0].
      exists rv, (read_slot v'). split; [exact Hg|]. split; [|exact Hsame].
      cbn [res_get]. rewrite (Hget' n Hne), Hlast, (ops_lookup_attr n j HinL), Hd.
      apply String.eqb_neq in Hid. rewrite Hid.
      unfold slot_value. cbn [w_desc w_vals w0]. rewrite Hs0.
      unfold stored_w. destruct v'; try reflexivity. congruence.
    - intros n x Hx. destruct (Rl_complete_w n x Hx) as [j Hj].
      assert (HinR : In (n, relske_of j) Rs).
      { apply lookup_In. rewrite Rs_lookup_w, Hj. reflexivity. }
      destruct (Rs_entry n _ HinR) as [x' [Hx' Hrs]].
      assert (x' = x) by (eapply NoDup_keys_In_eq; [exact (proj1 (proj2 (proj1 Hwf)))|exact Hx'|exact Hx]). subst x'.
      destruct (rel_decoded n x Hx) as [v [v' [Hg [Hd [_ [Hnn [Hsame _]]]]]]].
      destruct (wrel_facts n x Hx) as [_ [Hne Hid]].
      destruct (Hsr n x Hx) as [f [v0 [Hs _]]]. destruct (slot_w0 n f v0 Hs) as [v00 Hs0].
      exists v, v'. split; [exact Hg|]. split; [|exact Hsame].
      cbn [res_get]. rewrite (Hget' n Hne), Hlast, (ops_lookup_rel n _ HinR), Hrs, Hd.
      apply String.eqb_neq in Hid. rewrite Hid.
      unfold slot_value. cbn [w_desc w_vals w0]. rewrite Hs0.
      unfold stored_w. destruct v' as [| | | | | |kk oo|]; try reflexivity; try congruence.
      (* a relationship value is a string or a string list, never a pointer *)
      exfalso. destruct v; cbn in Hsame; contradiction.
  Qed.
End WrappedRoundTrip.

(** * Non-vacuity: a struct with an ID, two attributes and two relationships *)
Definition exw_desc : structdesc :=
  [mkSField "ID" (GTAttr 1 false) "id" "things" true;
   mkSField "A" (GTAttr 1 false) "a" "attr" true;
   mkSField "N" (GTAttr 3 true) "n" "attr" true;
   mkSField "One" (GTAttr 1 false) "one" "rel,u" true;
   mkSField "Many" GTStrs "many" "rel,u,back" true].
Definition exw_vals : list value :=
  [VStr "7"; VStr "<>&"; VPtr 3 None; VStr ""; VStrs false ["b"; "a"]].
Definition exw : wrapper :=
  match wrap exw_desc exw_vals with Ok w => w | _ => mkWrapper [] [] "" [] [] end.
Definition exw_sch : sch :=
  mkSch (mkSchema [mkType (w_typ exw) (w_attrs exw) (w_rels exw)]) [("things", exw_desc)].

Lemma exw_roundtrip e :
  exists j w',
    marshal_resource e (RWrap exw) "/api" (soft_fields (mkType (w_typ exw) (w_attrs exw) (w_rels exw)))
                     [("things", ["one"; "many"])] = Ok j /\
    unmarshal_resource e exw_sch j = Ok (RWrap w') /\
    w_typ w' = w_typ exw /\ w_attrs w' = w_attrs exw /\ w_rels w' = w_rels exw /\
    res_get (RWrap w') "id" = res_get (RWrap exw) "id" /\
    (forall n a, In (n, a) (w_attrs exw) ->
       exists rv rv', res_get (RWrap exw) n = Ok rv /\ res_get (RWrap w') n = Ok rv' /\ same_reading rv rv') /\
    (forall n x, In (n, x) (w_rels exw) ->
       exists v v', res_get (RWrap exw) n = Ok v /\ res_get (RWrap w') n = Ok v' /\ same_rel v v').
Proof.
  apply (wrapped_resource_roundtrip e exw_sch exw "/api" [("things", ["one"; "many"])] ["one"; "many"]).
  - (* wstate_ok *)
    split; [|reflexivity]. split; [|split; [|split]].
    + vm_compute. repeat constructor; cbn; intuition discriminate.
    + vm_compute. repeat constructor; cbn; intuition discriminate.
    + vm_compute. repeat constructor; try discriminate.
    + exists (mkSField "ID" (GTAttr 1 false) "id" "things" true). vm_compute. intuition.
  - (* wf_res_type *)
    vm_compute. split; [split; split|split; [|split]].
    + repeat constructor; cbn; intuition discriminate.
    + intros k a [H|[H|[]]]; injection H as <- <-; cbn; unfold valid_code; repeat split; try discriminate; lia.
    + repeat constructor; cbn; intuition discriminate.
    + intros k x [H|[H|[]]]; injection H as <- <-; cbn; repeat split; discriminate.
    + intros n [<-|[<-|[]]] [H|[H|[]]]; discriminate.
    + intros [H|[H|[]]]; discriminate.
    + intros [H|[H|[]]]; discriminate.
  - discriminate.
  - reflexivity.
  - reflexivity.
  - reflexivity.
  - (* attribute slots *)
    intros n a H. vm_compute in H. destruct H as [H|[H|[]]]; injection H as <- <-.
    + eexists. eexists. split; [vm_compute; reflexivity|]. split; [reflexivity|]. right. vm_compute. auto.
    + eexists. eexists. split; [vm_compute; reflexivity|]. split; [reflexivity|]. left. vm_compute. auto.
  - (* relationship slots *)
    intros n x H. vm_compute in H. destruct H as [H|[H|[]]]; injection H as <- <-.
    + eexists. eexists. split; [vm_compute; reflexivity|]. split; [reflexivity|]. cbn. eauto.
    + eexists. eexists. split; [vm_compute; reflexivity|]. split; [reflexivity|]. cbn. eauto.
  - reflexivity.
  - intros k H. vm_compute in H. vm_compute. tauto.
Qed.
