(* C08: parsing String() gives a URL that prints the same text. *)
From Coq Require Import Lia Permutation FinFun.
From JV Require Import Model.Base Model.GoTime Gen.TypeGo Model.Schema Model.Value
  Model.Strconv Model.Json Model.Url Model.UrlParse Proofs.BaseFacts Proofs.SoftFacts
  Proofs.C07Facts Proofs.C07Fields Proofs.C08Facts Proofs.C08Strings Proofs.C08Parse Proofs.C08Rules
  Proofs.C08Reparse Proofs.C08Origin.
Open Scope string_scope.

Lemma sapp_inv_tail a : forall b c, a ++ c = b ++ c -> a = b.
Proof.
  induction a as [|x a IH]; intros [|y b] c H; cbn in H.
  - reflexivity.
  - exfalso. apply (f_equal String.length) in H. cbn in H. rewrite slen_app in H. lia.
  - exfalso. apply (f_equal String.length) in H. cbn in H. rewrite slen_app in H. lia.
  - injection H as -> H. f_equal. exact (IH b c H).
Qed.

Lemma fields_name_inj : Injective fields_name.
Proof.
  intros a b H. unfold fields_name in H. apply sapp_inv_head in H. exact (sapp_inv_tail _ _ _ H).
Qed.

Definition other_names : list str := ["filter"; "page[number]"; "page[size]"; "sort"].

Lemma fields_name_other k : ~ In (fields_name k) other_names.
Proof.
  unfold fields_name, other_names. cbn [append In]. intros [H|[H|[H|[H|[]]]]]; discriminate H.
Qed.

Lemma tail_names_ok f lj u rs :
  let t := map fst (dec_filter f lj ++ dec_page u ++ dec_sort rs)%list in
  NoDup t /\ incl t other_names.
Proof.
  cbn zeta. unfold dec_filter, dec_page, dec_sort, other_names.
  destruct f as [|l|m]; [|destruct (String.eqb l "")|];
    destruct (u_iscol u);
    try destruct (lookup "number" (p_page (u_params u)));
    try destruct (lookup "size" (p_page (u_params u)));
    destruct rs; cbn [map fst app];
    (split; [repeat constructor; cbn [In]; intuition discriminate
            |intros a Ha; cbn [In] in *; intuition idtac]).
Qed.

Lemma dec_names_nodup u lj :
  NoDup (map fst (p_fields (u_params u))) -> NoDup (map fst (dec_params u lj)).
Proof.
  intros Hn. rewrite dec_params_parts, map_app.
  destruct (tail_names_ok (p_filter (u_params u)) lj u (p_rules (u_params u))) as [Ht Hi].
  cbn zeta in Ht, Hi.
  assert (Hf : NoDup (map fst (map fdec (sort_fields (p_fields (u_params u)))))).
  { rewrite map_map. cbn [fdec fst].
    rewrite <- (map_map fst fields_name). apply Injective_map_NoDup; [exact fields_name_inj|].
    eapply Permutation_NoDup; [|exact Hn]. apply Permutation_map, Permutation_sym, sort_fields_perm. }
  revert Hf Ht Hi.
  generalize (map fst (dec_filter (p_filter (u_params u)) lj ++ dec_page u ++ dec_sort (p_rules (u_params u)))%list).
  intros t Hf Ht Hi.
  assert (Hd : forall a, In a (map fst (map fdec (sort_fields (p_fields (u_params u))))) -> ~ In a t).
  { intros a Ha Hat. rewrite map_map in Ha. apply in_map_iff in Ha. destruct Ha as [kv [<- _]].
    cbn [fdec fst] in Hat. exact (fields_name_other _ (Hi _ Hat)). }
  revert Hf Hd. generalize (map fst (map fdec (sort_fields (p_fields (u_params u))))).
  intros A HA Hd. induction A as [|a A IH]; [exact Ht|]. cbn [app]. inversion HA as [|? ? Ha HA']; subst.
  constructor.
  - intros Hin. apply in_app_or in Hin. destruct Hin as [Hin|Hin]; [contradiction|].
    exact (Hd a (or_introl eq_refl) Hin).
  - apply IH; [exact HA'|]. intros b Hb. apply Hd. right. exact Hb.
Qed.

(** parsing the printed text of a well-formed URL value gives [url_back u],
    which prints the same text *)
Theorem reparse_printed s u lj fo :
  url_wf s u -> fo_agrees (p_filter (u_params u)) fo ->
  new_url_from_raw s (url_string u lj) fo = Ok (url_back u) /\
  url_string (url_back u) lj = url_string u lj.
Proof.
  intros W Ha. split; [|exact (url_string_back s u lj W)].
  destruct (wf_frags s u W) as [x [l [Hfr Hfo]]].
  unfold new_url_from_raw.
  rewrite (parse_raw_url_string u lj x l Hfr).
  - cbn [bind fst snd]. unfold new_url_from.
    rewrite (new_simple_url_back u lj fo x l Hfr Hfo (wf_good s u W) (wf_keys s u W)
               (wf_rules_tok s u W) (wf_pages s u W) Ha).
    cbn [bind]. exact (new_url_back s u W).
  - eapply Forall_impl; [|exact (wf_good s u W)]. intros kv [_ [H _]]. exact H.
  - apply dec_names_nodup. exact (wf_keys s u W).
Qed.

(** * what the second URL has in common with the first *)
Definition url_same (u u' : url) : Prop :=
  u_fragments u' = u_fragments u /\ u_iscol u' = u_iscol u /\ u_restype u' = u_restype u /\
  u_resid u' = u_resid u /\ u_relkind u' = u_relkind u /\ u_rel u' = u_rel u /\
  (* the same field selection: the same types, each with the same names (sorted) *)
  Permutation (p_fields (u_params u')) (map sorted_entry (p_fields (u_params u))) /\
  p_rules (u_params u') = p_rules (u_params u) /\
  (u_iscol u = true ->
   lookup "number" (p_page (u_params u')) = lookup "number" (p_page (u_params u)) /\
   lookup "size" (p_page (u_params u')) = lookup "size" (p_page (u_params u))) /\
  p_filter (u_params u') = filter_back (p_filter (u_params u)).

Lemma url_back_same s u : url_wf s u -> url_same u (url_back u).
Proof.
  intros W. unfold url_same, url_back.
  cbn [u_fragments u_iscol u_restype u_resid u_relkind u_rel u_params p_fields p_rules p_page p_filter].
  repeat (split; [reflexivity|]). split.
  { rewrite (fields_back_perm s u W). apply Permutation_map, sort_fields_perm. }
  split; [reflexivity|]. split; [|reflexivity].
  intros Hc. unfold page_back. rewrite Hc.
  destruct (lookup "number" (p_page (u_params u))) as [v1|];
    destruct (lookup "size" (p_page (u_params u))) as [v2|]; split; reflexivity.
Qed.

Theorem string_fixed_point s path values fo u lj fo' :
  schema_hyg s -> new_url_from s path values fo = Ok u ->
  fo_agrees (p_filter (u_params u)) fo' ->
  exists u', new_url_from_raw s (url_string u lj) fo' = Ok u' /\
             url_string u' lj = url_string u lj /\ url_same u u'.
Proof.
  intros Hy H Ha. pose proof (new_url_from_wf s path values fo u Hy H) as W.
  exists (url_back u). destruct (reparse_printed s u lj fo' W Ha) as [H1 H2].
  split; [exact H1|]. split; [exact H2|exact (url_back_same s u W)].
Qed.

(** the printed text lies in the domain on which [parse_raw] models url.Parse:
    one leading slash, not two *)
Lemma pesc_char_head c : exists d r, pesc_char c = String d r /\ Ascii.eqb d "/" = false.
Proof. destruct c as [[] [] [] [] [] [] [] []]; cbn; eexists; eexists; split; reflexivity. Qed.

Lemma in_domain_shape d r : Ascii.eqb d "/" = false -> raw_in_domain (String "/" (String d r)) = true.
Proof.
  intros Hd. unfold raw_in_domain, has_prefix. cbn [String.prefix].
  destruct (ascii_dec "/" "/") as [_|N]; [|contradiction].
  destruct (ascii_dec "/" d) as [E0|_]; [subst d; discriminate Hd|].
  destruct r; reflexivity.
Qed.

Lemma join_head sep a l : exists t, join sep (a :: l) = (a ++ t)%string.
Proof. destruct l as [|b l]; [exists ""; cbn; symmetry; apply sapp_nil_r|exists (sep ++ join sep (b :: l))%string; reflexivity]. Qed.

Theorem url_string_in_domain s u lj : url_wf s u -> raw_in_domain (url_string u lj) = true.
Proof.
  intros W. destruct (wf_frags s u W) as [x [l [Hfr Hfo]]].
  rewrite url_string_eq, (url_path_text_eq u x l Hfr).
  inversion Hfo as [|? ? [Hx _] _]; subst.
  destruct x as [|c x']; [contradiction|].
  change (map path_escape (String c x' :: l)) with (path_escape (String c x') :: map path_escape l).
  destruct (join_head "/" (path_escape (String c x')) (map path_escape l)) as [t ->].
  rewrite path_escape_cons. destruct (pesc_char_head c) as [d [r [E Hd]]]. rewrite E.
  cbn [append]. apply in_domain_shape. exact Hd.
Qed.
