package main

import (
	"bytes"
	"fmt"
	"math/big"
	"strings"
	"time"

	"github.com/mfcochauxlaberge/jsonapi"
)

// filter trees on the Go side
type ftree struct {
	field, op string
	val       any // leaf value
	subs      []*ftree
	label     string // and / or nodes: what the caller left in Field (ignored by the logic)
}

// goFilter builds the library's filter; a node of the tree that occurs twice (the same
// *ftree) becomes ONE *jsonapi.Filter listed twice.
func (f *ftree) goFilter() *jsonapi.Filter { return f.goFilterMemo(map[*ftree]*jsonapi.Filter{}) }

func (f *ftree) goFilterMemo(memo map[*ftree]*jsonapi.Filter) (out *jsonapi.Filter) {
	if g, ok := memo[f]; ok {
		return g
	}
	defer func() { memo[f] = out }()
	if f.op == "and" || f.op == "or" {
		var subs []*jsonapi.Filter
		for _, s := range f.subs {
			subs = append(subs, s.goFilterMemo(memo))
		}
		if subs == nil {
			subs = []*jsonapi.Filter{}
		}
		return &jsonapi.Filter{Field: f.label, Op: f.op, Val: subs}
	}
	return &jsonapi.Filter{Field: f.field, Op: f.op, Val: f.val}
}

func (f *ftree) gallina() string {
	if f.op == "and" || f.op == "or" {
		var it []string
		for _, s := range f.subs {
			it = append(it, s.gallina())
		}
		if f.op == "and" {
			return "(FAnd " + gList(it) + ")"
		}
		return "(FOr " + gList(it) + ")"
	}
	return fmt.Sprintf("(FLeaf %s %s %s)", gStr(f.field), gStr(f.op), gValue(f.val))
}

func (f *ftree) String() string {
	if f.op == "and" || f.op == "or" {
		var it []string
		for _, s := range f.subs {
			it = append(it, s.String())
		}
		return f.op + "(" + strings.Join(it, ", ") + ")"
	}
	return fmt.Sprintf("%s %s %s", f.field, f.op, descValue(f.val))
}

func (f *ftree) depth() int {
	d := 0
	for _, s := range f.subs {
		if x := s.depth(); x > d {
			d = x
		}
	}
	return d + 1
}

// cmpValues: the natural order of the kind, from the property text.
// ok=false when the values are not ordered (nil, bool, to-many).
func cmpValues(a, b any) (c int, ordered bool, equal bool) {
	na := a == nil
	nb := b == nil
	if _, p, isNil, in := deref(a); p {
		na = isNil
		a = in
	}
	if _, p, isNil, in := deref(b); p {
		nb = isNil
		b = in
	}
	if na || nb {
		return 0, false, na && nb
	}
	switch x := a.(type) {
	case string:
		y := b.(string)
		return strings.Compare(x, y), true, x == y
	case bool:
		return 0, false, x == b.(bool)
	case time.Time:
		y := b.(time.Time)
		return x.Compare(y), true, x.Equal(y)
	case []byte:
		y := b.([]byte)
		return bytes.Compare(x, y), true, bytes.Equal(x, y)
	case []string:
		y := b.([]string)
		sa, sb := map[string]int{}, map[string]int{}
		for _, s := range x {
			sa[s]++
		}
		for _, s := range y {
			sb[s]++
		}
		eq := len(sa) == len(sb) && len(x) == len(y)
		for k, v := range sa {
			if sb[k] != v {
				eq = false
			}
		}
		return 0, false, eq
	}
	ba, bb := bigOf(a), bigOf(b)
	if ba != nil && bb != nil {
		return ba.Cmp(bb), true, ba.Cmp(bb) == 0
	}
	return 0, false, false
}

var _ = big.NewInt

// semFilter evaluates the tree as logic (the property text).
func semFilter(f *ftree, r jsonapi.Resource) bool {
	switch f.op {
	case "and":
		for _, s := range f.subs {
			if !semFilter(s, r) {
				return false
			}
		}
		return true
	case "or":
		for _, s := range f.subs {
			if semFilter(s, r) {
				return true
			}
		}
		return false
	}
	var rv any
	if _, ok := r.Attrs()[f.field]; ok {
		rv = r.Get(f.field)
	} else if _, ok := r.Rels()[f.field]; ok {
		rv = r.Get(f.field)
	}
	switch f.op {
	case "in":
		for _, x := range f.val.([]string) {
			if x == rv.(string) {
				return true
			}
		}
		return false
	case "has":
		for _, x := range rv.([]string) {
			if x == f.val.(string) {
				return true
			}
		}
		return false
	}
	c, ordered, equal := cmpValues(rv, f.val)
	switch f.op {
	case "=":
		return equal
	case "!=":
		return !equal
	case "<":
		return ordered && c < 0
	case "<=":
		return ordered && c <= 0
	case ">":
		return ordered && c > 0
	case ">=":
		return ordered && c >= 0
	}
	return false
}

func c10Case(c *ctx, t typeSpec, ops []setOp, f *ftree, how string) {
	verdicts := map[bool]string{}
	var key, detail string
	for _, wrapped := range []bool{false, true} {
		var obs string
		var got bool
		p, pv := guard(func() {
			r := buildRes(t, wrapped, ops)
			want := semFilter(f, r)
			got = f.goFilter().IsAllowed(buildRes(t, wrapped, ops))
			obs = oOk(oB(got))
			if got != want && key == "" {
				key, detail = "verdict-differs-from-logic", fmt.Sprintf("wrapped=%v: IsAllowed=%v, the tree read as logic gives %v", wrapped, got, want)
			}
		})
		if p {
			obs = oPanic()
			if key == "" {
				key, detail = "filter-panics", fmt.Sprintf("wrapped=%v: %v", wrapped, pv)
			}
		}
		verdicts[wrapped] = obs
		feature := fmt.Sprintf("%s wrapped=%v depth=%d", how, wrapped, f.depth())
		if f.op != "and" && f.op != "or" {
			fs := t.field(f.field)
			kind := "?"
			if fs != nil {
				if fs.rel {
					kind = fmt.Sprintf("rel-toone=%v", fs.toOne)
				} else {
					kind = jsonapi.GetAttrTypeString(fs.code, fs.nullable)
				}
			}
			feature += fmt.Sprintf(" op=%s kind=%s verdict=%s", f.op, kind, obs)
			c.count("op:" + f.op)
		}
		var descs []string
		for _, o := range ops {
			descs = append(descs, fmt.Sprintf("%s=%s", o.key, descValue(o.val)))
		}
		desc := fmt.Sprintf("wrapped=%v {%s} filter %s", wrapped, strings.Join(descs, "; "), f)
		k := c.add("filter", desc, feature, false,
			fmt.Sprintf("(run_filter %s %s %s)", gNewRes(t, wrapped), gOps(ops), f.gallina()), obs, "", "")
		k.Replay = how
		if wrapped {
			if verdicts[false] != verdicts[true] && key == "" {
				key, detail = "verdict-depends-on-implementation", fmt.Sprintf("soft %s, wrapped %s", verdicts[false], verdicts[true])
			}
			if key != "" {
				k.FailKey, k.PropFail = key, key+": "+detail
			}
		}
	}
}

var c10Ops = []string{"=", "!=", "<", "<=", ">", ">=", "~", ""}

func c10Dict(code int) []any {
	d := dictValues(code)
	if len(d) > 9 && code != 13 { // times: keep the zoned entries and their UTC twins
		d = d[:9]
	}
	return d
}

func randFilterTree(r *rng, t typeSpec, depth int) *ftree {
	if depth > 0 && r.chance(2, 3) {
		n := r.intn(4)
		f := &ftree{op: pick(r, []string{"and", "or"})}
		if r.chance(1, 4) {
			f.label = pick(r, []string{"label", "nope", "id", pick(r, t.fields).name})
		}
		for i := 0; i < n; i++ {
			f.subs = append(f.subs, randFilterTree(r, t, depth-1))
		}
		return f
	}
	fs := pick(r, t.fields)
	if fs.rel {
		if fs.toOne {
			if r.bool() {
				return &ftree{field: fs.name, op: "in", val: randIDsNonNil(r)}
			}
			return &ftree{field: fs.name, op: pick(r, c10Ops), val: pick(r, dictIDs)}
		}
		if r.bool() {
			return &ftree{field: fs.name, op: "has", val: pick(r, dictIDs)}
		}
		return &ftree{field: fs.name, op: pick(r, []string{"=", "!=", "<", "~"}), val: randIDsNonNil(r)}
	}
	return &ftree{field: fs.name, op: pick(r, c10Ops), val: randValue(r, fs.code, fs.nullable, false)}
}

func randIDsNonNil(r *rng) []string {
	ids := randIDs(r)
	if ids == nil {
		return []string{}
	}
	return ids
}

func runC10(c *ctx) {
	all := allKindsSpec("alltypes", "other")
	// operator x kind x value pair, exhaustively over the per-kind dictionary
	for _, fs := range all.fields {
		if fs.rel {
			continue
		}
		d := c10Dict(fs.code)
		var left, right []any
		for _, v := range d {
			if fs.nullable {
				left = append(left, ptrTo(v))
				right = append(right, ptrTo(v))
			} else {
				left = append(left, v)
				right = append(right, v)
			}
		}
		if fs.nullable {
			nilp := func() any { return randValueNil(fs.code) }
			left = append(left, nilp())
			right = append(right, nilp())
			// the filter's value and the resource's value are the very same pointer
			for _, v := range d[:min(len(d), 3)] {
				p := ptrTo(v)
				for _, op := range c10Ops {
					c10Case(c, all, []setOp{{fs.name, p}}, &ftree{field: fs.name, op: op, val: p}, "shared-pointer")
				}
			}
		}
		for _, a := range left {
			for _, b := range right {
				for _, op := range c10Ops {
					if !c.thorough() && len(d) > 4 && c.r.chance(3, 4) && op != "<" && op != "=" {
						continue
					}
					c10Case(c, all, []setOp{{fs.name, a}}, &ftree{field: fs.name, op: op, val: b}, "pairs")
				}
			}
		}
	}
	// relationships
	for _, id := range []string{"", "1", "abc"} {
		for _, l := range [][]string{{}, {"1"}, {"abc", "1"}, {"1", "1"}} {
			c10Case(c, all, []setOp{{"one", id}}, &ftree{field: "one", op: "in", val: l}, "in")
			c10Case(c, all, []setOp{{"many", l}}, &ftree{field: "many", op: "has", val: id}, "has")
			for _, l2 := range [][]string{{}, {"1"}, {"1", "abc"}, {"1", "1"}} {
				for _, op := range []string{"=", "!=", "<", ">="} {
					c10Case(c, all, []setOp{{"many", append([]string{}, l...)}}, &ftree{field: "many", op: op, val: append([]string{}, l2...)}, "to-many")
				}
			}
			for _, op := range c10Ops {
				c10Case(c, all, []setOp{{"one", id}}, &ftree{field: "one", op: op, val: "1"}, "to-one")
			}
		}
	}
	// to-many sets whose IDs contain what an implementation might join them with
	for _, pr := range [][2][]string{{{"a,b", "c"}, {"a", "b,c"}}, {{"a,b"}, {"a", "b"}}, {{"ab", "c"}, {"a", "bc"}}, {{"a b", "c"}, {"a", "b c"}}, {{"a\x00b"}, {"a", "b"}},
		{{"a|b", "c"}, {"a", "b|c"}}, {{"a\nb"}, {"a", "b"}}, {{"a", ""}, {"a"}}, {{"", ""}, {""}}, {{"a,b", "c"}, {"c", "a,b"}}} {
		for _, op := range []string{"=", "!=", "<", "<=", ">", ">=", "~"} {
			c10Case(c, all, []setOp{{"many", append([]string{}, pr[0]...)}}, &ftree{field: "many", op: op, val: append([]string{}, pr[1]...)}, "to-many-separators")
			c10Case(c, all, []setOp{{"many", append([]string{}, pr[1]...)}}, &ftree{field: "many", op: op, val: append([]string{}, pr[0]...)}, "to-many-separators")
		}
	}
	// deep chains of single-child and / or nodes around a leaf
	for _, depth := range []int{31, 32, 33, 34, 40, 64, 100, 300} {
		for _, leaf := range []*ftree{{field: "int", op: "=", val: 5}, {field: "int", op: "=", val: 6}, {op: "and"}, {op: "or"}} {
			f := leaf
			for i := 0; i < depth; i++ {
				f = &ftree{op: []string{"and", "or"}[i%2], subs: []*ftree{f}}
			}
			c10Case(c, all, []setOp{{"int", 5}}, f, "deep-chain")
		}
	}
	// and / or trees
	n := 250
	if c.thorough() {
		n = 6000
	}
	for i := 0; i < n; i++ {
		t := all
		if c.r.bool() {
			t = randTypeSpec(c.r, "t", 6, []string{"other"})
			if len(t.fields) == 0 {
				continue
			}
		}
		ops := c01Ops(c.r, t, false)
		c10Case(c, t, ops, randFilterTree(c.r, t, pick(c.r, []int{0, 1, 2, 3, 6})), "tree")
	}
	// empty and / or, unknown field
	c10Case(c, all, nil, &ftree{op: "and"}, "empty-and")
	c10Case(c, all, nil, &ftree{op: "or"}, "empty-or")
	c10Case(c, all, nil, &ftree{field: "nope", op: "=", val: "x"}, "unknown-field")
	// labelled logical nodes, and the all-zero filter (also as a child)
	yes, no := &ftree{field: "int", op: "=", val: 5}, &ftree{field: "int", op: "=", val: 6}
	zero := &ftree{}
	for _, lab := range []string{"label", "nope", "int", "one", "many"} {
		for _, f := range []*ftree{{op: "and", label: lab}, {op: "or", label: lab}, {op: "and", label: lab, subs: []*ftree{yes}}, {op: "or", label: lab, subs: []*ftree{no, yes}},
			{op: "and", label: lab, subs: []*ftree{yes, no}}, {op: "or", label: lab, subs: []*ftree{no}}} {
			c10Case(c, all, []setOp{{"int", 5}}, f, "labelled-logical-node")
		}
	}
	// one node used twice: under two parents, and listed twice under one
	third := &ftree{field: "string", op: "=", val: "zz"}
	for _, f := range []*ftree{
		{op: "or", subs: []*ftree{{op: "and", subs: []*ftree{yes, no}}, {op: "and", subs: []*ftree{yes, yes}}}},
		{op: "and", subs: []*ftree{yes, yes}}, {op: "or", subs: []*ftree{no, no, yes, yes}},
		{op: "and", subs: []*ftree{{op: "or", subs: []*ftree{third, yes}}, {op: "or", subs: []*ftree{yes, third}}}}} {
		c10Case(c, all, []setOp{{"int", 5}}, f, "shared-node")
	}
	for _, f := range []*ftree{zero, {op: "or", subs: []*ftree{zero}}, {op: "and", subs: []*ftree{zero}}, {op: "and", subs: []*ftree{yes, zero}}, {op: "or", subs: []*ftree{no, zero}}} {
		c10Case(c, all, []setOp{{"int", 5}}, f, "zero-filter")
	}
}

func randValueNil(code int) any {
	return ptrNil(code)
}

func init() {
	register("C10", []string{"Model.GoTime", "Gen.TypeGo", "Gen.FilterGo", "Model.Schema", "Model.Value", "Model.SoftRes", "Model.Wrapper", "Model.Resource", "Model.Filter", "Model.C17", "Model.C10"}, runC10)
}
