package main

import (
	"encoding/json"
	"fmt"
	"net/url"
	"reflect"
	"sort"
	"strings"

	"github.com/mfcochauxlaberge/jsonapi"
)

func gValues(v url.Values) string {
	ks := make([]string, 0, len(v))
	for k := range v {
		ks = append(ks, k)
	}
	sort.Strings(ks)
	var it []string
	for _, k := range ks {
		it = append(it, gPair(gStr(k), gStrs(v[k])))
	}
	return gList(it)
}

// filterOracle decodes the filter parameter the way NewSimpleURL does.
func filterOracle(v url.Values) (g string, labelJSON string) {
	if _, ok := v["filter"]; !ok {
		return "FOErr", ""
	}
	val := v.Get("filter")
	if !strings.HasPrefix(val, "{") {
		var label string
		if err := json.Unmarshal([]byte("\""+val+"\""), &label); err != nil {
			return "FOErr", ""
		}
		lj, _ := json.Marshal(label)
		return "(FOLabel " + gStr(label) + ")", string(lj[1 : len(lj)-1])
	}
	f := &jsonapi.Filter{}
	var mf []byte
	var err error
	if p, _ := guard(func() {
		if err = json.Unmarshal([]byte(val), f); err == nil {
			mf, err = json.Marshal(f)
		}
	}); p || err != nil {
		return "FOErr", ""
	}
	return "(FOFilter " + gStr(string(mf)) + ")", ""
}

func oPageVal(v any) string {
	switch x := v.(type) {
	case int:
		return oC("int", oZ(x))
	case string:
		return oC("str", oS(x))
	}
	return oC("other")
}

func oURL(u *jsonapi.URL) string {
	var frs, rules, fields, page, incs []string
	for _, f := range u.Fragments {
		frs = append(frs, oS(f))
	}
	ks := make([]string, 0, len(u.Params.Fields))
	for k := range u.Params.Fields {
		ks = append(ks, k)
	}
	sort.Strings(ks)
	for _, k := range ks {
		var l []string
		for _, f := range u.Params.Fields[k] {
			l = append(l, oS(f))
		}
		fields = append(fields, oL([]string{oS(k), oL(l)}))
	}
	flt := oC("none")
	if u.Params.Filter != nil {
		mf, _ := json.Marshal(u.Params.Filter)
		flt = oC("filter", oS(string(mf)))
	} else if u.Params.FilterLabel != "" {
		flt = oC("label", oS(u.Params.FilterLabel))
	}
	for _, r := range u.Params.SortingRules {
		rules = append(rules, oS(r))
	}
	pk := make([]string, 0, len(u.Params.Page))
	for k := range u.Params.Page {
		pk = append(pk, k)
	}
	sort.Strings(pk)
	for _, k := range pk {
		page = append(page, oL([]string{oS(k), oPageVal(u.Params.Page[k])}))
	}
	for _, chain := range u.Params.Include {
		var l []string
		for _, r := range chain {
			l = append(l, oRel(r))
		}
		incs = append(incs, oL(l))
	}
	// String() sorts the field lists in place: call it last
	str := u.String()
	return oL([]string{oL(frs), oS(u.Route), oB(u.IsCol), oS(u.ResType), oS(u.ResID), oS(u.RelKind), oRel(u.Rel),
		oL(fields), flt, oL(rules), oL(page), oL(incs), oS(str)})
}

// ---------- the property, from its text ----------

func typeByName(s *jsonapi.Schema, n string) *jsonapi.Type {
	for i := range s.Types {
		if s.Types[i].Name == n {
			return &s.Types[i]
		}
	}
	return nil
}

func validPath(s *jsonapi.Schema, rt string, path string) bool {
	cur := rt
	for _, w := range strings.Split(path, ".") {
		t := typeByName(s, cur)
		if t == nil {
			return false
		}
		r, ok := t.Rels[w]
		if !ok || typeByName(s, r.ToType) == nil {
			return false // no such relationship, or its target type is not in the schema
		}
		cur = r.ToType
	}
	return true
}

func c07URLOk(s *jsonapi.Schema, u *jsonapi.URL, q url.Values) (string, string) {
	rt := typeByName(s, u.ResType)
	if rt == nil {
		return "restype-not-in-schema", u.ResType
	}
	for tn, fs := range u.Params.Fields {
		t := typeByName(s, tn)
		if t == nil {
			return "fields-for-unknown-type", tn
		}
		all := setOf(t.Fields())
		seen := map[string]bool{}
		for _, f := range fs {
			if f != "id" && !all[f] {
				return "fields-lists-unknown-field", tn + "." + f
			}
			if seen[f] {
				return "fields-duplicate", tn + "." + f
			}
			seen[f] = true
		}
		if _, asked := q["fields["+tn+"]"]; !asked || q.Get("fields["+tn+"]") == "" {
			if !reflect.DeepEqual(setOf(fs), all) {
				return "fields-default-not-all", fmt.Sprintf("%s: %v", tn, fs)
			}
		}
	}
	// inclusion paths
	var requested []string
	for _, v := range q["include"] {
		for _, p := range strings.Split(v, ",") {
			if p != "" {
				requested = append(requested, p)
			}
		}
	}
	// what the recorded finding (include-zero-rel-survives) predicts: the validation
	// loop deletes while iterating, so the path that slides into the place of a
	// removed one is never validated and survives
	knownBug := func() [][]jsonapi.Rel {
		incs := append([]string{}, requested...)
		sort.Strings(incs)
		for i := len(incs) - 1; i >= 0; i-- {
			if i > 0 && (incs[i] == incs[i-1] || strings.HasPrefix(incs[i], incs[i-1]+".")) {
				incs = append(incs[:i-1], incs[i:]...)
			}
		}
		for i := 0; i < len(incs); i++ {
			if !validPath(s, u.ResType, incs[i]) {
				incs = append(incs[:i], incs[i+1:]...) // and i still advances
			}
		}
		out := make([][]jsonapi.Rel, len(incs))
		for i, p := range incs {
			cur := u.ResType
			for _, w := range strings.Split(p, ".") {
				var r jsonapi.Rel
				if t := typeByName(s, cur); t != nil {
					r = t.Rels[w]
				}
				out[i] = append(out[i], r)
				cur = r.ToType
			}
		}
		return out
	}
	got := map[string]bool{}
	for _, chain := range u.Params.Include {
		cur := u.ResType
		var names []string
		bad := ""
		for _, r := range chain {
			t := typeByName(s, cur)
			if t == nil || r == (jsonapi.Rel{}) {
				bad = fmt.Sprintf("after %v in %v", names, requested)
				break
			}
			if rr, ok := t.Rels[r.FromName]; !ok || rr != r || r.FromName == "" {
				return "include-not-a-chain", fmt.Sprintf("after %v: %s", names, descRel(r))
			}
			names = append(names, r.FromName)
			cur = r.ToType
		}
		if bad != "" {
			// a path that is not a chain of the schema survived: the recorded finding
			// when (and only when) the whole list is what that defect produces
			if reflect.DeepEqual(u.Params.Include, knownBug()) {
				return "include-zero-rel-survives", bad
			}
			return "include-not-a-chain", bad
		}
		got[strings.Join(names, ".")] = true
	}
	for _, p := range requested {
		if !validPath(s, u.ResType, p) {
			continue
		}
		// "kept unless a longer requested path extends it" (valid or not)
		extended := false
		for _, q2 := range requested {
			if q2 != p && strings.HasPrefix(q2, p+".") {
				extended = true
			}
		}
		if !extended && !got[p] {
			// the recorded finding also drops the valid path that follows a removed one? no: it keeps it
			return "valid-include-dropped", p
		}
	}
	if u.IsCol {
		attrs := map[string]bool{}
		for _, a := range rt.Attrs {
			attrs[a.Name] = true
		}
		hasID := false
		seen := map[string]bool{}
		for _, r := range u.Params.SortingRules {
			n := strings.TrimPrefix(r, "-")
			if n == "id" {
				hasID = true
			} else if !attrs[n] {
				return "sorting-rule-not-an-attribute", r
			}
			if seen[n] {
				return "sorting-rule-repeated", r
			}
			seen[n] = true
		}
		if !hasID {
			return "sorting-rules-without-id", fmt.Sprint(u.Params.SortingRules)
		}
		// the caller's valid rules, in order, come first
		var want []string
		ws := map[string]bool{}
		for _, v := range q["sort"] {
			for _, r := range strings.Split(v, ",") {
				n := strings.TrimPrefix(r, "-")
				if r == "" || ws[n] || (n != "id" && !attrs[n]) {
					continue
				}
				ws[n] = true
				want = append(want, r)
			}
		}
		if len(u.Params.SortingRules) < len(want) || !reflect.DeepEqual(u.Params.SortingRules[:len(want)], want) {
			if len(want) > 0 {
				return "caller-rules-not-kept-in-order", fmt.Sprintf("%v, requested %v", u.Params.SortingRules, want)
			}
		}
	}
	return "", ""
}

// sameURL: what C08 says parsing String() must recover.
func sameURL(a, b *jsonapi.URL) string {
	if !reflect.DeepEqual(a.Fragments, b.Fragments) {
		return fmt.Sprintf("fragments %q vs %q", a.Fragments, b.Fragments)
	}
	if a.ResType != b.ResType || a.ResID != b.ResID || a.Rel != b.Rel || a.IsCol != b.IsCol {
		return "type/id/relationship"
	}
	fa, fb := map[string]map[string]bool{}, map[string]map[string]bool{}
	for k, v := range a.Params.Fields {
		fa[k] = setOf(v)
	}
	for k, v := range b.Params.Fields {
		fb[k] = setOf(v)
	}
	if !reflect.DeepEqual(fa, fb) {
		onlyEmpty := true
		for k, v := range fa {
			if !reflect.DeepEqual(fb[k], v) && !(len(v) == 0 && fb[k] == nil) {
				onlyEmpty = false
			}
		}
		for k := range fb {
			if _, ok := fa[k]; !ok {
				onlyEmpty = false
			}
		}
		if onlyEmpty {
			return "EMPTY-FIELD-LIST: " + fmt.Sprintf("fields %v vs %v", a.Params.Fields, b.Params.Fields)
		}
		return fmt.Sprintf("fields %v vs %v", a.Params.Fields, b.Params.Fields)
	}
	if !reflect.DeepEqual(a.Params.SortingRules, b.Params.SortingRules) && len(a.Params.SortingRules)+len(b.Params.SortingRules) > 0 {
		return fmt.Sprintf("rules %v vs %v", a.Params.SortingRules, b.Params.SortingRules)
	}
	if a.IsCol {
		for _, k := range []string{"number", "size"} {
			if !reflect.DeepEqual(a.Params.Page[k], b.Params.Page[k]) {
				return fmt.Sprintf("page[%s] %v vs %v", k, a.Params.Page[k], b.Params.Page[k])
			}
		}
	}
	if a.Params.FilterLabel != b.Params.FilterLabel {
		return fmt.Sprintf("label %q vs %q", a.Params.FilterLabel, b.Params.FilterLabel)
	}
	ma, _ := json.Marshal(a.Params.Filter)
	mb, _ := json.Marshal(b.Params.Filter)
	if string(ma) != string(mb) {
		return fmt.Sprintf("filter %s vs %s", ma, mb)
	}
	return ""
}

func c07Case(c *ctx, sc schemaSpec, raw string, how string, prop string) {
	c07CaseOn(c, sc, sc.build(), raw, how, prop)
}

func c07CaseOn(c *ctx, sc schemaSpec, schema *jsonapi.Schema, raw string, how string, prop string) {
	var key, detail string
	var u *jsonapi.URL
	var err error
	p, pv := guard(func() { u, err = jsonapi.NewURLFromRaw(schema, raw) })
	pu, perr := url.Parse(raw)
	obs := oC("fail")
	switch {
	case p:
		obs = oPanic()
		if prop == "C07" {
			key, detail = "url-parsing-panics", fmt.Sprint(pv)
		}
	case err == nil && u == nil:
		key, detail = "neither-url-nor-error", ""
	case err == nil:
		obs = oOk(oURL(u)) // before anything else calls String(), which sorts the field lists in place
		if prop == "C07" {
			key, detail = c07URLOk(schema, u, pu.Query())
			if key == "" {
				// the URL still is what the property says after it has been printed (twice)
				if p3, pv3 := guard(func() {
					_ = u.String()
					_ = u.String()
					if k2, d2 := c07URLOk(schema, u, pu.Query()); k2 != "" {
						key, detail = "url-changed-by-string", k2+": "+d2
					}
				}); p3 {
					key, detail = "url-changed-by-string", fmt.Sprint(pv3)
				}
			}
			if key == "" {
				// the SimpleURL handed to NewURL is the caller's: it can be used again (with any schema)
				if p4, pv4 := guard(func() {
					su, e1 := jsonapi.NewSimpleURL(pu)
					if e1 != nil {
						return
					}
					before := fmt.Sprintf("%#v", su)
					u1, e2 := jsonapi.NewURL(schema, su)
					u2, e3 := jsonapi.NewURL(schema, su)
					if after := fmt.Sprintf("%#v", su); after != before {
						key, detail = "simple-url-changed", before+" became "+after
					} else if (e2 == nil) != (e3 == nil) || (e2 == nil && oURL(u1) != oURL(u2)) {
						key, detail = "simple-url-changed", "the same SimpleURL gives another URL the second time"
					}
				}); p4 {
					key, detail = "url-parsing-panics", fmt.Sprint(pv4)
				}
			}
		}
		if prop == "C08" {
			p2, pv2 := guard(func() {
				txt := u.String()
				for i := 0; i < 6; i++ {
					if again := u.String(); again != txt {
						key, detail = "string-not-deterministic", fmt.Sprintf("%q, printed again %q", txt, again)
						return
					}
				}
				u2, err2 := jsonapi.NewURLFromRaw(schema, txt)
				if err2 != nil {
					key, detail = "string-does-not-parse-back", fmt.Sprintf("%q: %v", txt, err2)
					return
				}
				if m := sameURL(u, u2); m != "" {
					key, detail = "string-parses-to-another-url", fmt.Sprintf("%q: %s", txt, m)
					if strings.HasPrefix(m, "EMPTY-FIELD-LIST") {
						key = "empty-field-list-chopped"
					}
					return
				}
				if t2 := u2.String(); t2 != txt {
					key, detail = "string-not-a-fixed-point", fmt.Sprintf("%q then %q", txt, t2)
				}
			})
			if p2 {
				key, detail = "string-roundtrip-panics", fmt.Sprint(pv2)
			}
			if key == "" {
				if alt := permuteRaw(c.r, raw); alt != "" {
					ua, erra := jsonapi.NewURLFromRaw(schema, alt)
					u0, _ := jsonapi.NewURLFromRaw(schema, raw)
					if erra != nil {
						key, detail = "permuted-url-rejected", fmt.Sprintf("%q: %v", alt, erra)
					} else if ua.String() != u0.String() {
						key, detail = "string-depends-on-parameter-order", fmt.Sprintf("%q gives %q, %q gives %q", raw, u0.String(), alt, ua.String())
					}
				}
			}
		}
	}
	// the model of url.Parse + Query() against the standard library
	inDomain := strings.HasPrefix(raw, "/") && !strings.HasPrefix(raw, "//")
	c.add("rawparse", raw, fmt.Sprintf("%s in=%v ok=%v", how, inDomain, perr == nil), !inDomain,
		"(run_rawparse "+gStr(raw)+")", oRawParse(raw, inDomain, pu, perr), "", "")
	if perr != nil {
		if inDomain {
			// NewURLFromRaw through the model's own url.Parse: both must refuse
			c.add("rawurl", raw, how+" parse-error", false,
				fmt.Sprintf("(run_url_raw %s %s FOErr %s)", "(sch_schema "+sc.gallina()+")", gStr(raw), gStr("")), obs, "", "")
		}
		return // url.Parse rejects it: no (path, query) to give the model
	}
	q := pu.Query()
	fo, labelJSON := filterOracle(q)
	nparams := len(q)
	feature := fmt.Sprintf("%s frags=%d params=%d ok=%v", how, min(len(parseFrags(pu.Path)), 5), min(nparams, 5), err == nil)
	c.count(fmt.Sprintf("ok=%v", err == nil && !p))
	k := c.add("url", raw, feature, false,
		fmt.Sprintf("(run_url %s %s %s %s %s)", "(sch_schema "+sc.gallina()+")", gStr(pu.Path), gValues(q), fo, gStr(labelJSON)),
		obs, key, detail)
	k.Replay = how + ": " + raw
	if inDomain {
		k2 := c.add("rawurl", raw, feature, false,
			fmt.Sprintf("(run_url_raw %s %s %s %s)", "(sch_schema "+sc.gallina()+")", gStr(raw), fo, gStr(labelJSON)), obs, "", "")
		k2.Replay = how + ": " + raw
	}
}

// oRawParse: what url.Parse and URL.Query() make of raw (keys sorted).
func oRawParse(raw string, inDomain bool, pu *url.URL, perr error) string {
	if !inDomain {
		return oC("outside")
	}
	if perr != nil {
		return oC("fail")
	}
	q := pu.Query()
	ks := make([]string, 0, len(q))
	for k := range q {
		ks = append(ks, k)
	}
	sort.Strings(ks)
	var it []string
	for _, k := range ks {
		vs := make([]string, len(q[k]))
		for i, v := range q[k] {
			vs[i] = oS(v)
		}
		it = append(it, oL([]string{oS(k), oL(vs)}))
	}
	return oC("ok", oS(pu.Path), oL(it))
}

func parseFrags(p string) []string {
	var out []string
	for _, f := range strings.Split(p, "/") {
		if f != "" {
			out = append(out, f)
		}
	}
	return out
}

// ---------- generation ----------

func urlSchema(r *rng) schemaSpec {
	a := typeSpec{name: "t", fields: []fieldSpec{
		{name: "a", code: 1}, {name: "ab", code: 2}, {name: "b", code: 13, nullable: true}, {name: "n", code: 11},
		{name: "A", code: 1}, {name: "B", code: 12},
		// names the printed URL must escape
		{name: "x y", code: 1}, {name: "é", code: 2},
		{rel: true, name: "r", toOne: true, target: "u", inv: "back"},
		{rel: true, name: "rs", toOne: false, target: "u"},
		{rel: true, name: "self", toOne: false, target: "t", inv: "self"},
		{rel: true, name: "dangling", toOne: true, target: "missing"},
	}}
	u := typeSpec{name: "u", fields: []fieldSpec{
		{name: "title", code: 1}, {name: "a", code: 12},
		{rel: true, name: "back", toOne: false, target: "t", inv: "r"},
		{rel: true, name: "owner", toOne: true, target: "t"},
	}}
	e := typeSpec{name: "empty"}
	return schemaSpec{types: []typeSpec{a, u, e}, wrapped: map[string]bool{}}
}

var urlReserved = []string{" ", "&", "?", "#", "%", "+", "/", "=", ";", ",", "[", "]", "\"", "\\", "é", "%zz", "a%26b", "a b"}

func randRawURL(r *rng, hostile bool) string {
	names := []string{"t", "u", "empty", "zz", "relationships", "meta", "r", "rs", "self", "dangling", "owner", "back", "1", "x y", "id"}
	n := r.intn(6)
	var frs []string
	for i := 0; i < n; i++ {
		f := pick(r, names)
		if i == 0 && r.chance(3, 4) {
			f = pick(r, []string{"t", "u", "empty"})
		}
		if i == 1 && r.chance(1, 2) {
			f = pick(r, []string{"1", "abc", "a b", "é", ".", "..", "a/../b", " 1 "})
			if hostile {
				f += pick(r, urlReserved)
			}
		}
		if i == 2 && r.chance(1, 2) {
			f = pick(r, []string{"r", "rs", "self", "relationships", "dangling"})
		}
		frs = append(frs, url.PathEscape(f))
	}
	path := "/" + strings.Join(frs, "/")
	if r.chance(1, 10) {
		path += "/"
	}
	var ps []string
	np := r.intn(6)
	fieldNames := []string{"a", "ab", "b", "n", "r", "rs", "title", "id", "zz", "", "owner", "back", "A", "B", "x+y", "x%20y", "%C3%A9"}
	for i := 0; i < np; i++ {
		switch r.intn(8) {
		case 0, 1:
			var fs []string
			for j := r.intn(4); j > 0; j-- {
				fs = append(fs, pick(r, fieldNames))
			}
			ps = append(ps, "fields["+pick(r, []string{"t", "u", "empty", "zz", ""})+"]="+strings.Join(fs, ","))
		case 2:
			var rs []string
			for j := r.intn(5); j > 0; j-- {
				rs = append(rs, pick(r, []string{"a", "-a", "ab", "-b", "id", "-id", "n", "zz", "-", "title", "", "--a", "---id", "--", "-a-b", "a-", "x+y", "-x%20y", "%C3%A9"}))
			}
			ps = append(ps, "sort="+strings.Join(rs, ","))
		case 3:
			var is []string
			for j := r.intn(4); j > 0; j-- {
				is = append(is, pick(r, []string{"r", "rs", "self", "r.back", "r.back.r", "rs.owner", "self.self.self", "zz", "yy", "r.zz", "dangling", "dangling.x", "owner", "back", "", "r.", ".r", "r..back", ".", "rs.owner.", "r.back."}))
			}
			ps = append(ps, "include="+strings.Join(is, ","))
		case 4:
			v := pick(r, []string{"1", "0", "-5", "abc", "", "10", "9223372036854775808", "18446744073709551615", "18446744073709551616", "9223372036854775807", "-9223372036854775808", "-9223372036854775809", "+5", "007", "1e3", "0x10", "1_000"})
			if hostile {
				v += pick(r, urlReserved)
			}
			ps = append(ps, "page["+pick(r, []string{"number", "size", "foo", "", "offset", "limit", "cursor"})+"]="+url.QueryEscape(v))
		case 5:
			v := pick(r, []string{"label", "", "la bel", `{"f":"a","o":"=","v":"x"}`, `{"o":"and","v":[{"f":"a","o":"=","v":"x #y"},{"o":"or","v":[]}]}`,
				`{"f":"ab","o":"<","v":5,"c":"x"}`, `{"f":"a","o":"=","v":"a+b c"}`, `{"o":"or","v":[{"f":"a","o":"in","v":["1+1","100%&x=y;z?#/"]}]}`, "la+bel", "t\x7fb", "a\x01b", "b\xffad", "\u2028x", `{bad`, `{"o":"and","v":5}`, `a\nb`, `a\\b`, `{"f":"a","o":"=","v":null}`,
				`{"o":"or","v":[null]}`, `{"o":"and","v":[null,{"f":"a","o":"=","v":"1"}]}`, `{"o":"not","v":null}`, `null`, `[]`, `{"o":"or","v":null}`, `{"o":"and","v":[[]]}`, `{"o":"not","v":{"o":"or","v":[null]}}`})
			if hostile {
				v += pick(r, urlReserved)
			}
			ps = append(ps, "filter="+url.QueryEscape(v))
		case 6:
			ps = append(ps, pick(r, []string{"unknown=1", "fields[]=a", "page[]=1", "fields=a", "Sort=a", "=", "a"}))
		default:
			ps = append(ps, pick(r, []string{"sort=a,a,a,a", "sort=id,-a", "include=zz,yy", "include=r,rs", "filter=", "sort=-", "fields[t]=a,a", "fields[t]=id,id", "fields[empty]="}))
		}
	}
	if r.chance(1, 4) {
		shuffle(r, ps)
	}
	raw := path
	if len(ps) > 0 {
		raw += "?" + strings.Join(ps, "&")
	}
	if hostile && r.chance(1, 6) {
		raw += pick(r, []string{"#frag", "%", "%zz", ";x=1", " "})
	}
	return raw
}

func runURLs(c *ctx, prop string) {
	sc := urlSchema(c.r)
	corpus := []string{"/t?filter=", "/t?sort=a,a,a,a", "/t?sort=a,a", "/t?include=zz,yy", "/t?include=r,rs", "/t?sort=id,-a", "/t/1/dangling",
		"/t/a%3Fb", "/t?filter=la%26bel", "/t?page[size]=a%26b&page[number]=1", "/t?filter=a%5Cb", "/t?page[foo]=1", "/t", "/t/1", "/t/1/r", "/t/1/relationships/rs",
		"/", "", "/zz", "/t/1/zz", "/t?fields[t]=a,ab&fields[u]=title&include=r.back&sort=-ab,a&page[number]=2&page[size]=10", "/empty?fields[empty]=x",
		"/t?filter=%7B%22f%22%3A%22a%22%2C%22o%22%3A%22%3D%22%2C%22v%22%3A%22x%20%23y%22%7D", "/u/é/owner", "/t/1/self/extra/more"}
	for _, raw := range corpus {
		c07Case(c, sc, raw, "corpus", prop)
	}
	// list parameters with blank, tab and '+' items
	for _, name := range []string{"sort", "include", "fields[t]", "fields%5Bt%5D"} {
		for _, v := range []string{"+", "%20", "a,%20,b", "-a,+,id", "%09", "a,,b", ",", " a", "a%20", "r,%20", "%20,r", "-%20", "-"} {
			c07Case(c, sc, "/t?"+name+"="+v, "blank-items", prop)
			c07Case(c, sc, "/t/1/rs?"+name+"="+v, "blank-items", prop)
		}
	}
	// a schema that was used, then edited: a removed type must be gone for the parser, an added one known
	for _, raw := range []string{"/gone", "/gone/1", "/late", "/late/1", "/late?sort=-a", "/holder/1/g", "/holder/1/relationships/g", "/holder?include=g",
		"/t?fields[gone]=title", "/t?fields[late]=a", "/holder", "/t?include=r"} {
		for v := 0; v < 3; v++ {
			schema, sc2 := editedSchema(sc, v)
			c07CaseOn(c, sc2, schema, raw, "schema-edited", prop)
		}
	}
	// another schema whose types have the same names but other fields, in the same process
	sc3 := schemaSpec{types: []typeSpec{
		{name: "t", fields: []fieldSpec{{name: "zeta", code: 1}, {name: "a", code: 2}, {rel: true, name: "r", toOne: false, target: "u"}}},
		{name: "u", fields: []fieldSpec{{name: "name", code: 1}}},
		{name: "empty", fields: []fieldSpec{{name: "now-has-one", code: 12}}}}, wrapped: map[string]bool{}}
	for _, raw := range []string{"/t", "/t?sort=zeta", "/u", "/t/1/r", "/t?fields[t]=zeta", "/empty", "/t?include=r", "/t?sort=a,-zeta&fields[u]=name"} {
		c07Case(c, sc, raw, "two-schemas", prop)
		c07Case(c, sc3, raw, "two-schemas", prop)
		c07Case(c, sc, raw, "two-schemas", prop)
	}
	n := 1500
	if c.thorough() {
		n = 40000
	}
	for i := 0; i < n; i++ {
		c07Case(c, sc, randRawURL(c.r, i%3 == 0), "grammar", prop)
	}
	// raw strings inside the domain of the url.Parse model: one leading slash, then anything
	for i := 0; i < n/5; i++ {
		b := make([]byte, c.r.intn(40))
		for j := range b {
			b[j] = pick(c.r, []byte("/?&==[]%%tua,.-:;#+ 0123456789abcdefABCDEFgG\x00\x1f\x7f\xffé{}\"\\"))
		}
		c07Case(c, sc, "/t"+string(b), "rawdomain", prop)
	}
	if prop == "C07" {
		// raw strings
		for i := 0; i < n/5; i++ {
			b := make([]byte, c.r.intn(30))
			for j := range b {
				b[j] = pick(c.r, []byte("/?&=[]%tua,.-:;#+ \x00\xffé{}\"\\"))
			}
			c07Case(c, sc, string(b), "raw", prop)
		}
	}
}

func runC07(c *ctx) { runURLs(c, "C07") }
func runC08(c *ctx) { runURLs(c, "C08") }

func init() {
	imports := []string{"Model.GoTime", "Gen.TypeGo", "Model.Schema", "Model.Value", "Model.Json", "Model.SoftRes", "Model.Wrapper", "Model.Resource", "Model.Unmarshal", "Model.Url", "Model.C07", "Model.UrlParse", "Model.C08"}
	register("C07", imports, runC07)
	register("C08", imports, runC08)
}

// permuteRaw reorders differently named parameters and the names inside
// fields / include lists, and inserts empty list items; "" when the URL has
// repeated parameter names (their order is meaningful) or no query.
func permuteRaw(r *rng, raw string) string {
	i := strings.IndexByte(raw, '?')
	if i < 0 || strings.ContainsAny(raw, "#;") {
		return ""
	}
	ps := strings.Split(raw[i+1:], "&")
	seen := map[string]bool{}
	for j, p := range ps {
		name := p
		if k := strings.IndexByte(p, '='); k >= 0 {
			name = p[:k]
		}
		dn, err := url.QueryUnescape(name)
		if err != nil || seen[dn] {
			return ""
		}
		seen[dn] = true
		if k := strings.IndexByte(p, '='); k >= 0 && (strings.HasPrefix(dn, "fields[") || dn == "include") {
			items := strings.Split(p[k+1:], ",")
			shuffle(r, items)
			if r.bool() {
				items = append(items, "")
			}
			if r.bool() {
				items = append([]string{""}, items...)
			}
			ps[j] = p[:k+1] + strings.Join(items, ",")
		}
	}
	shuffle(r, ps)
	return raw[:i+1] + strings.Join(ps, "&")
}
