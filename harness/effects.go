package main

// Write-effect analysis for C12.  For every function of the package it
// records which writes it performs to state that may be shared through a
// *Schema and which package functions it may call; the result is printed as
// the Gallina table Gen/EffectsGo.v, over which Props/C12.v proves that the
// listed operations reach no writer.
//
// Kinds of write:
//   schema-field  a field written through a *Schema, an element of a []Type
//                 or a field of such an element
//   shared-map    an element stored in, or deleted from, a map[string]Attr or
//                 map[string]Rel that the function did not create itself
//   type-field    a field written through a *Type the function did not
//                 create itself
//   inplace       sort.* / copy / clear / &x handed to another package on
//                 schema-typed state the function did not create itself

import (
	"fmt"
	"go/ast"
	"go/importer"
	"go/parser"
	"go/token"
	"go/types"
	"os"
	"path/filepath"
	"sort"
	"strings"
)

type fnEffect struct {
	name       string
	recvWrites map[string]bool // "kind expr", rooted at the receiver
	writes     map[string]bool // every other write
	calls      map[string]bool // "mode callee": 0 on a value the caller created, 1 on the caller's receiver, 2 otherwise
}

type effAnalysis struct {
	info    *types.Info
	pkg     *types.Package
	fset    *token.FileSet
	methods map[string][]*types.Func // method name -> methods
	fieldFn map[string][]string      // func-typed field name -> functions that build a value for it
	fresh   map[types.Object]bool
	recv    types.Object
}

func namedName(t types.Type) string {
	for {
		if p, ok := t.(*types.Pointer); ok {
			t = p.Elem()
			continue
		}
		break
	}
	if n, ok := t.(*types.Named); ok {
		return n.Obj().Name()
	}
	return ""
}

func isPtr(t types.Type) bool {
	_, ok := t.Underlying().(*types.Pointer)
	return ok
}

// schemaMap: map[string]Attr, map[string]Rel
func schemaMap(t types.Type) bool {
	if m, ok := t.Underlying().(*types.Map); ok {
		n := namedName(m.Elem())
		return n == "Attr" || n == "Rel" || n == "Type"
	}
	return false
}

// schemaSlice: []Type, []*Type, []Rel, []Attr
func schemaSlice(t types.Type) bool {
	if s, ok := t.Underlying().(*types.Slice); ok {
		n := namedName(s.Elem())
		return n == "Type" || n == "Rel" || n == "Attr"
	}
	return false
}

func (a *effAnalysis) typeOf(e ast.Expr) types.Type {
	if tv, ok := a.info.Types[e]; ok && tv.Type != nil {
		return tv.Type
	}
	if id, ok := e.(*ast.Ident); ok {
		if o := a.info.ObjectOf(id); o != nil {
			return o.Type()
		}
	}
	return types.Typ[types.Invalid]
}

// rootOf returns the identifier an addressable expression starts at.
func rootOf(e ast.Expr) *ast.Ident {
	for {
		switch x := e.(type) {
		case *ast.Ident:
			return x
		case *ast.SelectorExpr:
			e = x.X
		case *ast.IndexExpr:
			e = x.X
		case *ast.StarExpr:
			e = x.X
		case *ast.ParenExpr:
			e = x.X
		case *ast.SliceExpr:
			e = x.X
		default:
			return nil
		}
	}
}

func (a *effAnalysis) isFresh(e ast.Expr) bool {
	id := rootOf(e)
	if id == nil {
		return false
	}
	o := a.info.ObjectOf(id)
	return o != nil && a.fresh[o]
}

// classify the location written by an assignment to lhs ("" when it is not
// schema state reachable by others).
func (a *effAnalysis) classify(lhs ast.Expr) string {
	if a.isFresh(lhs) {
		return ""
	}
	// walk the chain from the written location to the root, remembering
	// whether a reference (pointer, map, slice) is crossed
	kind := ""
	e := lhs
	for {
		switch x := e.(type) {
		case *ast.ParenExpr:
			e = x.X
			continue
		case *ast.StarExpr:
			ct := a.typeOf(x.X)
			switch namedName(ct) {
			case "Schema":
				kind = "schema-field"
			case "Type":
				if kind == "" {
					kind = "type-field"
				}
			}
			e = x.X
			continue
		case *ast.SelectorExpr:
			ct := a.typeOf(x.X)
			if isPtr(ct) {
				switch namedName(ct) {
				case "Schema":
					kind = "schema-field"
				case "Type":
					if kind == "" {
						kind = "type-field"
					}
				}
			}
			e = x.X
			continue
		case *ast.IndexExpr:
			ct := a.typeOf(x.X)
			if schemaMap(ct) && kind != "schema-field" {
				kind = "shared-map"
			}
			if schemaSlice(ct) {
				kind = "schema-field"
			}
			e = x.X
			continue
		case *ast.SliceExpr:
			e = x.X
			continue
		}
		break
	}
	return kind
}

func (a *effAnalysis) fullName(f *types.Func) string {
	sig := f.Type().(*types.Signature)
	if r := sig.Recv(); r != nil {
		return namedName(r.Type()) + "." + f.Name()
	}
	return f.Name()
}

// does an argument expose schema state the function did not create?
func (a *effAnalysis) sharedArg(e ast.Expr) bool {
	if u, ok := e.(*ast.UnaryExpr); ok && u.Op == token.AND {
		e = u.X
		if a.isFresh(e) {
			return false
		}
		n := namedName(a.typeOf(e))
		return n == "Schema" || n == "Type" || schemaMap(a.typeOf(e)) || schemaSlice(a.typeOf(e))
	}
	if a.isFresh(e) {
		return false
	}
	t := a.typeOf(e)
	return schemaMap(t) || schemaSlice(t)
}

func (a *effAnalysis) markFresh(fd *ast.FuncDecl) {
	var isNew func(e ast.Expr) bool
	isNew = func(e ast.Expr) bool {
		switch x := e.(type) {
		case *ast.BasicLit, *ast.FuncLit:
			return true
		case *ast.CompositeLit:
			// a literal that embeds schema state created elsewhere is not new
			for _, el := range x.Elts {
				v := el
				if kv, ok := el.(*ast.KeyValueExpr); ok {
					v = kv.Value
				}
				t := a.typeOf(v)
				n := namedName(t)
				if schemaMap(t) || schemaSlice(t) || (isPtr(t) && (n == "Type" || n == "Schema")) || n == "Type" || n == "Schema" {
					if isNew(v) {
						continue
					}
					if u, ok := v.(*ast.UnaryExpr); ok && u.Op == token.AND && a.isFresh(u.X) {
						continue
					}
					if a.isFresh(v) {
						continue
					}
					return false
				}
			}
			return true
		case *ast.UnaryExpr:
			if x.Op == token.AND {
				if _, ok := x.X.(*ast.CompositeLit); ok {
					return isNew(x.X)
				}
			}
		case *ast.CallExpr:
			if id, ok := x.Fun.(*ast.Ident); ok && (id.Name == "make" || id.Name == "new") {
				if _, isB := a.info.ObjectOf(id).(*types.Builtin); isB {
					return true
				}
			}
		}
		return false
	}
	notFresh := map[types.Object]bool{}
	ast.Inspect(fd.Body, func(n ast.Node) bool {
		switch s := n.(type) {
		case *ast.AssignStmt:
			for i, l := range s.Lhs {
				id, ok := l.(*ast.Ident)
				if !ok {
					continue
				}
				o := a.info.ObjectOf(id)
				if o == nil {
					continue
				}
				var r ast.Expr
				if len(s.Rhs) == len(s.Lhs) {
					r = s.Rhs[i]
				}
				if r != nil && isNew(r) {
					if !notFresh[o] {
						a.fresh[o] = true
					}
				} else if r != nil && s.Tok == token.ASSIGN && isAppendTo(r, id) {
					// x = append(x, ...) keeps x's provenance
				} else {
					notFresh[o] = true
					delete(a.fresh, o)
				}
			}
		case *ast.ValueSpec:
			for i, id := range s.Names {
				o := a.info.ObjectOf(id)
				if o == nil {
					continue
				}
				if len(s.Values) == 0 {
					// var x T: a zero value the function owns, unless it is a pointer
					if !isPtr(o.Type()) {
						a.fresh[o] = true
					}
				} else if i < len(s.Values) && isNew(s.Values[i]) {
					a.fresh[o] = true
				}
			}
		case *ast.RangeStmt:
			for _, e := range []ast.Expr{s.Key, s.Value} {
				if id, ok := e.(*ast.Ident); ok {
					if o := a.info.ObjectOf(id); o != nil {
						notFresh[o] = true
						delete(a.fresh, o)
					}
				}
			}
		}
		return true
	})
	// a value-typed struct local copied from elsewhere still shares its maps:
	// only the constructors above count as fresh.
}

func isAppendTo(r ast.Expr, id *ast.Ident) bool {
	c, ok := r.(*ast.CallExpr)
	if !ok || len(c.Args) == 0 {
		return false
	}
	f, ok := c.Fun.(*ast.Ident)
	if !ok || f.Name != "append" {
		return false
	}
	a0, ok := c.Args[0].(*ast.Ident)
	return ok && a0.Name == id.Name
}

func (a *effAnalysis) rootObj(e ast.Expr) types.Object {
	id := rootOf(e)
	if id == nil {
		return nil
	}
	return a.info.ObjectOf(id)
}

func (a *effAnalysis) analyse(fd *ast.FuncDecl) fnEffect {
	fe := fnEffect{recvWrites: map[string]bool{}, writes: map[string]bool{}, calls: map[string]bool{}}
	obj := a.info.Defs[fd.Name].(*types.Func)
	fe.name = a.fullName(obj)
	if fd.Body == nil {
		return fe
	}
	a.recv = nil
	if fd.Recv != nil && len(fd.Recv.List) == 1 && len(fd.Recv.List[0].Names) == 1 {
		a.recv = a.info.ObjectOf(fd.Recv.List[0].Names[0])
	}
	a.markFresh(fd)
	src := func(e ast.Expr) string { return types.ExprString(e) }
	record := func(root types.Object, w string) {
		if root != nil && root == a.recv {
			fe.recvWrites[w] = true
		} else {
			fe.writes[w] = true
		}
	}
	write := func(lhs ast.Expr) {
		root := a.rootObj(lhs)
		if root != nil && root.Parent() == a.pkg.Scope() {
			fe.writes["global-var "+src(lhs)] = true
			return
		}
		if k := a.classify(lhs); k != "" {
			record(root, k+" "+src(lhs))
		}
	}
	mode := func(recvExpr ast.Expr) string {
		if a.isFresh(recvExpr) {
			return "0"
		}
		if o := a.rootObj(recvExpr); o != nil && o == a.recv {
			return "1"
		}
		return "2"
	}
	ast.Inspect(fd.Body, func(n ast.Node) bool {
		switch s := n.(type) {
		case *ast.AssignStmt:
			for _, l := range s.Lhs {
				if id, ok := l.(*ast.Ident); ok {
					if o := a.info.ObjectOf(id); o != nil && o.Parent() == a.pkg.Scope() {
						fe.writes["global-var "+id.Name] = true
					}
					continue
				}
				write(l)
			}
		case *ast.IncDecStmt:
			write(s.X)
		case *ast.RangeStmt:
			for _, e := range []ast.Expr{s.Key, s.Value} {
				if e != nil {
					if _, ok := e.(*ast.Ident); !ok {
						write(e)
					}
				}
			}
		case *ast.CallExpr:
			switch f := s.Fun.(type) {
			case *ast.Ident:
				o := a.info.ObjectOf(f)
				if _, isB := o.(*types.Builtin); isB {
					if (f.Name == "delete" || f.Name == "copy" || f.Name == "clear") && len(s.Args) > 0 && a.sharedArg(s.Args[0]) {
						k := "inplace"
						if f.Name == "delete" {
							k = "shared-map"
						}
						record(a.rootObj(s.Args[0]), k+" "+f.Name+"("+src(s.Args[0])+")")
					}
				} else if fn, ok := o.(*types.Func); ok && fn.Pkg() == a.pkg {
					fe.calls["2 "+a.fullName(fn)] = true
				}
			case *ast.SelectorExpr:
				if sel, ok := a.info.Selections[f]; ok && sel.Kind() == types.FieldVal {
					// a function stored in a field (Type.NewFunc): any function
					// of the package that builds one may be what runs
					for _, g := range a.fieldFn[f.Sel.Name] {
						fe.calls["2 "+g] = true
					}
				} else if ok {
					// method call
					if fn, ok := sel.Obj().(*types.Func); ok && fn.Pkg() == a.pkg {
						m := mode(f.X)
						if iface, ok := sel.Recv().Underlying().(*types.Interface); ok {
							for _, cand := range a.methods[fn.Name()] {
								rt := cand.Type().(*types.Signature).Recv().Type()
								base := rt
								if p, ok := rt.(*types.Pointer); ok {
									base = p.Elem()
								}
								if types.Implements(base, iface) || types.Implements(types.NewPointer(base), iface) {
									fe.calls[m+" "+a.fullName(cand)] = true
								}
							}
						} else {
							fe.calls[m+" "+a.fullName(fn)] = true
						}
					}
				} else if fn, ok := a.info.Uses[f.Sel].(*types.Func); ok {
					// package-qualified function
					if fn.Pkg() == a.pkg {
						fe.calls["2 "+a.fullName(fn)] = true
					} else {
						for _, arg := range s.Args {
							isSort := fn.Pkg() != nil && (fn.Pkg().Path() == "sort" || fn.Pkg().Path() == "slices")
							_, addr := arg.(*ast.UnaryExpr)
							if (isSort || addr) && a.sharedArg(arg) {
								root := arg
								if u, ok := arg.(*ast.UnaryExpr); ok {
									root = u.X
								}
								record(a.rootObj(root), "inplace "+fn.Pkg().Name()+"."+fn.Name()+"("+src(arg)+")")
							}
						}
					}
				}
			}
		}
		return true
	})
	return fe
}

func computeEffects(repo string) ([]fnEffect, error) {
	fset := token.NewFileSet()
	ents, err := os.ReadDir(repo)
	if err != nil {
		return nil, err
	}
	var files []*ast.File
	for _, e := range ents {
		n := e.Name()
		if !strings.HasSuffix(n, ".go") || strings.HasSuffix(n, "_test.go") {
			continue
		}
		f, err := parser.ParseFile(fset, filepath.Join(repo, n), nil, parser.ParseComments|parser.SkipObjectResolution)
		if err != nil {
			return nil, err
		}
		// files guarded by the verif tag are instrumentation, not the library
		skip := false
		for _, cg := range f.Comments {
			if cg.Pos() < f.Package && strings.Contains(cg.Text(), "go:build") && strings.Contains(cg.Text(), "verif") {
				skip = true
			}
		}
		if f.Name.Name != "jsonapi" || skip {
			continue
		}
		files = append(files, f)
	}
	info := &types.Info{
		Types:      map[ast.Expr]types.TypeAndValue{},
		Defs:       map[*ast.Ident]types.Object{},
		Uses:       map[*ast.Ident]types.Object{},
		Selections: map[*ast.SelectorExpr]*types.Selection{},
	}
	conf := types.Config{Importer: importer.ForCompiler(fset, "source", nil), Error: func(error) {}}
	pkg, err := conf.Check("github.com/mfcochauxlaberge/jsonapi", fset, files, info)
	if pkg == nil {
		return nil, err
	}
	a := &effAnalysis{info: info, pkg: pkg, fset: fset, methods: map[string][]*types.Func{}, fresh: map[types.Object]bool{}}
	var decls []*ast.FuncDecl
	for _, f := range files {
		for _, d := range f.Decls {
			if fd, ok := d.(*ast.FuncDecl); ok {
				decls = append(decls, fd)
				if fd.Recv != nil {
					fn := info.Defs[fd.Name].(*types.Func)
					a.methods[fd.Name.Name] = append(a.methods[fd.Name.Name], fn)
				}
			}
		}
	}
	a.fieldFn = map[string][]string{}
	for _, fd := range decls {
		if fd.Body == nil {
			continue
		}
		name := a.fullName(info.Defs[fd.Name].(*types.Func))
		seen := map[string]bool{}
		ast.Inspect(fd.Body, func(n ast.Node) bool {
			var key string
			var val ast.Expr
			switch x := n.(type) {
			case *ast.KeyValueExpr:
				if id, ok := x.Key.(*ast.Ident); ok {
					key, val = id.Name, x.Value
				}
			case *ast.AssignStmt:
				if len(x.Lhs) == 1 && len(x.Rhs) == 1 {
					if sel, ok := x.Lhs[0].(*ast.SelectorExpr); ok {
						key, val = sel.Sel.Name, x.Rhs[0]
					}
				}
			}
			if val != nil {
				if _, ok := a.typeOf(val).Underlying().(*types.Signature); ok && !seen[key] {
					seen[key] = true
					a.fieldFn[key] = append(a.fieldFn[key], name)
				}
			}
			return true
		})
	}
	var out []fnEffect
	for _, fd := range decls {
		out = append(out, a.analyse(fd))
	}
	sort.Slice(out, func(i, j int) bool { return out[i].name < out[j].name })
	return out, nil
}

func effectsGallina(effs []fnEffect) string {
	var b strings.Builder
	b.WriteString("(* GENERATED by verifharness xlate from /repo: write effects and calls of every function.\n")
	b.WriteString("   (name, (writes through the receiver, other writes, calls (mode, callee))) with mode\n")
	b.WriteString("   0 = on a value the caller created, 1 = on the caller's receiver, 2 = anything else. *)\n")
	b.WriteString("From JV Require Import Model.Base.\n\n")
	b.WriteString("Definition fn_effects : list (str * (list str * list str * list (Z * str))) := [\n")
	for i, e := range effs {
		var rs, ws, cs []string
		for _, w := range keysOf(e.recvWrites) {
			rs = append(rs, gStr(w))
		}
		for _, w := range keysOf(e.writes) {
			ws = append(ws, gStr(w))
		}
		for _, c := range keysOf(e.calls) {
			cs = append(cs, fmt.Sprintf("(%s%%Z, %s)", c[:1], gStr(c[2:])))
		}
		sep := ";"
		if i == len(effs)-1 {
			sep = ""
		}
		fmt.Fprintf(&b, "  (%s, ([%s], [%s], [%s]))%s\n", gStr(e.name), strings.Join(rs, "; "), strings.Join(ws, "; "), strings.Join(cs, "; "), sep)
	}
	b.WriteString("]%list.\n")
	return b.String()
}
