package main

// Go values <-> model terms; JSON bytes -> tree; oracle tables (stdenv).

import (
	"encoding/base64"
	"encoding/json"
	"fmt"
	"sort"
	"strings"
	"time"

	"github.com/mfcochauxlaberge/jsonapi"
)

// ---------- values ----------

func gTime(t time.Time) string {
	_, off := t.Zone()
	return fmt.Sprintf("(mkTime %s %s %s)", gZ(t.Unix()), gZ(t.Nanosecond()), gZ(off))
}
func oTime(t time.Time) string {
	_, off := t.Zone()
	return oC("time", oZ(t.Unix()), oZ(t.Nanosecond()), oZ(off))
}
func gBytes(b []byte) string {
	it := make([]string, len(b))
	for i, x := range b {
		it[i] = gZ(x)
	}
	return gList(it)
}
func oBytes(b []byte) string {
	it := make([]string, len(b))
	for i, x := range b {
		it[i] = oZ(x)
	}
	return oC("bytes", oB(b == nil), oL(it))
}

// kindOf returns the attribute kind code of a base Go value.
func kindOfBase(v any) int {
	switch v.(type) {
	case string:
		return 1
	case int:
		return 2
	case int8:
		return 3
	case int16:
		return 4
	case int32:
		return 5
	case int64:
		return 6
	case uint:
		return 7
	case uint8:
		return 8
	case uint16:
		return 9
	case uint32:
		return 10
	case uint64:
		return 11
	case bool:
		return 12
	case time.Time:
		return 13
	case []byte:
		return 14
	}
	return 0
}

// deref turns a pointer of one of the 14 kinds into (kind, isNil, pointee).
func deref(v any) (k int, isPtr, isNil bool, inner any) {
	switch p := v.(type) {
	case *string:
		if p == nil {
			return 1, true, true, nil
		}
		return 1, true, false, *p
	case *int:
		if p == nil {
			return 2, true, true, nil
		}
		return 2, true, false, *p
	case *int8:
		if p == nil {
			return 3, true, true, nil
		}
		return 3, true, false, *p
	case *int16:
		if p == nil {
			return 4, true, true, nil
		}
		return 4, true, false, *p
	case *int32:
		if p == nil {
			return 5, true, true, nil
		}
		return 5, true, false, *p
	case *int64:
		if p == nil {
			return 6, true, true, nil
		}
		return 6, true, false, *p
	case *uint:
		if p == nil {
			return 7, true, true, nil
		}
		return 7, true, false, *p
	case *uint8:
		if p == nil {
			return 8, true, true, nil
		}
		return 8, true, false, *p
	case *uint16:
		if p == nil {
			return 9, true, true, nil
		}
		return 9, true, false, *p
	case *uint32:
		if p == nil {
			return 10, true, true, nil
		}
		return 10, true, false, *p
	case *uint64:
		if p == nil {
			return 11, true, true, nil
		}
		return 11, true, false, *p
	case *bool:
		if p == nil {
			return 12, true, true, nil
		}
		return 12, true, false, *p
	case *time.Time:
		if p == nil {
			return 13, true, true, nil
		}
		return 13, true, false, *p
	case *[]byte:
		if p == nil {
			return 14, true, true, nil
		}
		return 14, true, false, *p
	}
	return 0, false, false, nil
}

// oValue prints the observation of a Go value (type obs).
func oValue(v any) string {
	if v == nil {
		return oC("nil")
	}
	switch x := v.(type) {
	case string:
		return oC("str", oS(x))
	case bool:
		return oC("bool", oB(x))
	case time.Time:
		return oTime(x)
	case []byte:
		return oBytes(x)
	case []string:
		it := make([]string, len(x))
		for i, s := range x {
			it[i] = oS(s)
		}
		return oC("strs", oB(x == nil), oL(it))
	case int, int8, int16, int32, int64, uint, uint8, uint16, uint32, uint64:
		return oC("int", oZ(kindOfBase(v)), oZ(x))
	}
	if k, isPtr, isNil, inner := deref(v); isPtr {
		if isNil {
			return oC("nilptr", oZ(k))
		}
		return oC("ptr", oZ(k), oValue(inner))
	}
	return oC("unknown", oS(fmt.Sprintf("%T", v)))
}

// gValue prints a Go value as a Gallina term of type value.
func gValue(v any) string {
	if v == nil {
		return "VNil"
	}
	switch x := v.(type) {
	case string:
		return "(VStr " + gStr(x) + ")"
	case bool:
		return "(VBool " + gBool(x) + ")"
	case time.Time:
		return "(VTime " + gTime(x) + ")"
	case []byte:
		return "(VBytes " + gBool(x == nil) + " " + gBytes(x) + ")"
	case []string:
		return "(VStrs " + gBool(x == nil) + " " + gStrs(x) + ")"
	case int, int8, int16, int32, int64, uint, uint8, uint16, uint32, uint64:
		return fmt.Sprintf("(VInt %s %s)", gZ(kindOfBase(v)), gZ(x))
	}
	if k, isPtr, isNil, inner := deref(v); isPtr {
		if isNil {
			return fmt.Sprintf("(VPtr %s None)", gZ(k))
		}
		return fmt.Sprintf("(VPtr %s (Some %s))", gZ(k), gValue(inner))
	}
	panic(fmt.Sprintf("gValue: unsupported %T", v))
}

// ---------- JSON tree ----------

type jnode struct {
	kind string // null bool num str arr obj
	b    bool
	lit  string
	s    string
	esc  bool
	arr  []*jnode
	keys []string
	vals []*jnode
}

// parseJSON returns the tree of a valid JSON text (as encoding/json sees it),
// or nil when encoding/json would report a syntax error.
func parseJSON(data []byte) *jnode {
	if !json.Valid(data) {
		return nil
	}
	p := &jparser{d: data}
	p.ws()
	n := p.value()
	return n
}

type jparser struct {
	d []byte
	i int
}

func (p *jparser) ws() {
	for p.i < len(p.d) && (p.d[p.i] == ' ' || p.d[p.i] == '\t' || p.d[p.i] == '\n' || p.d[p.i] == '\r') {
		p.i++
	}
}
func (p *jparser) str() (string, bool) {
	start := p.i
	p.i++
	esc := false
	for p.d[p.i] != '"' {
		if p.d[p.i] == '\\' {
			esc = true
			p.i++
		}
		p.i++
	}
	p.i++
	var s string
	_ = json.Unmarshal(p.d[start:p.i], &s)
	return s, esc
}
func (p *jparser) value() *jnode {
	switch c := p.d[p.i]; {
	case c == 'n':
		p.i += 4
		return &jnode{kind: "null"}
	case c == 't':
		p.i += 4
		return &jnode{kind: "bool", b: true}
	case c == 'f':
		p.i += 5
		return &jnode{kind: "bool", b: false}
	case c == '"':
		s, esc := p.str()
		return &jnode{kind: "str", s: s, esc: esc}
	case c == '[':
		p.i++
		n := &jnode{kind: "arr"}
		p.ws()
		if p.d[p.i] == ']' {
			p.i++
			return n
		}
		for {
			p.ws()
			n.arr = append(n.arr, p.value())
			p.ws()
			if p.d[p.i] == ',' {
				p.i++
				continue
			}
			p.i++
			return n
		}
	case c == '{':
		p.i++
		n := &jnode{kind: "obj"}
		p.ws()
		if p.d[p.i] == '}' {
			p.i++
			return n
		}
		for {
			p.ws()
			k, _ := p.str()
			p.ws()
			p.i++ // :
			p.ws()
			n.keys = append(n.keys, k)
			n.vals = append(n.vals, p.value())
			p.ws()
			if p.d[p.i] == ',' {
				p.i++
				continue
			}
			p.i++
			return n
		}
	default:
		start := p.i
		for p.i < len(p.d) && strings.IndexByte("+-0123456789.eE", p.d[p.i]) >= 0 {
			p.i++
		}
		return &jnode{kind: "num", lit: string(p.d[start:p.i])}
	}
}

func (n *jnode) gallina() string {
	switch n.kind {
	case "null":
		return "JNull"
	case "bool":
		return "(JBool " + gBool(n.b) + ")"
	case "num":
		return "(JNum " + gStr(n.lit) + ")"
	case "str":
		return "(JStr " + gStr(n.s) + " " + gBool(n.esc) + ")"
	case "arr":
		it := make([]string, len(n.arr))
		for i, x := range n.arr {
			it[i] = x.gallina()
		}
		return "(JArr " + gList(it) + ")"
	default:
		it := make([]string, len(n.keys))
		for i := range n.keys {
			it[i] = gPair(gStr(n.keys[i]), n.vals[i].gallina())
		}
		return "(JObj " + gList(it) + ")"
	}
}

// obs prints the tree in the form of Model/Json.v's obs_json.
func (n *jnode) obs() string {
	switch n.kind {
	case "null":
		return oC("null")
	case "bool":
		return oB(n.b)
	case "num":
		return oC("num", oS(n.lit))
	case "str":
		return oS(n.s)
	case "arr":
		it := make([]string, len(n.arr))
		for i, x := range n.arr {
			it[i] = x.obs()
		}
		return oL(it)
	default:
		it := make([]string, len(n.keys))
		for i := range n.keys {
			it[i] = oL([]string{oS(n.keys[i]), n.vals[i].obs()})
		}
		return "(OC \"obj\" " + gList(it) + ")"
	}
}

func (n *jnode) strings(acc map[string]bool) {
	switch n.kind {
	case "str":
		acc[n.s] = true
	case "arr":
		for _, x := range n.arr {
			x.strings(acc)
		}
	case "obj":
		for _, x := range n.vals {
			x.strings(acc)
		}
	}
}

// ---------- oracle tables ----------

// stdEnv builds the Gallina stdenv term for the strings, times and byte
// strings a case may touch.
type stdEnv struct {
	strs  map[string]bool
	times []time.Time
	bytes [][]byte
}

func newStdEnv() *stdEnv {
	// the zero time and the empty byte string are what unset fields hold
	return &stdEnv{strs: map[string]bool{}, times: []time.Time{{}}, bytes: [][]byte{{}}}
}

func (e *stdEnv) addTree(n *jnode) {
	if n != nil {
		n.strings(e.strs)
	}
}
func (e *stdEnv) addValue(v any) {
	switch x := v.(type) {
	case time.Time:
		e.times = append(e.times, x)
	case *time.Time:
		if x != nil {
			e.times = append(e.times, *x)
		}
	case []byte:
		e.bytes = append(e.bytes, x)
	case *[]byte:
		if x != nil {
			e.bytes = append(e.bytes, *x)
		}
	}
}

func goTimeParse(s string) (time.Time, bool) {
	var t time.Time
	if err := t.UnmarshalJSON([]byte("\"" + s + "\"")); err != nil {
		return t, false
	}
	return t, true
}

func (e *stdEnv) gallina() string {
	keys := make([]string, 0, len(e.strs))
	for s := range e.strs {
		keys = append(keys, s)
	}
	sort.Strings(keys)
	var tp, bd []string
	for _, s := range keys {
		if t, ok := goTimeParse(s); ok {
			tp = append(tp, gPair(gStr(s), gTime(t)))
		}
		if b, err := base64.StdEncoding.DecodeString(s); err == nil {
			bd = append(bd, gPair(gStr(s), gBytes(b)))
		}
	}
	var tf, be []string
	seenT := map[string]bool{}
	for _, t := range e.times {
		k := gTime(t)
		if seenT[k] {
			continue
		}
		seenT[k] = true
		txt, err := t.MarshalJSON()
		if err != nil {
			continue
		}
		tf = append(tf, gPair(k, gStr(string(txt[1:len(txt)-1]))))
	}
	seenB := map[string]bool{}
	for _, b := range e.bytes {
		k := gBytes(b)
		if seenB[k] {
			continue
		}
		seenB[k] = true
		be = append(be, gPair(k, gStr(base64.StdEncoding.EncodeToString(b))))
	}
	return fmt.Sprintf("(tbl_env %s %s %s %s)", gList(tp), gList(tf), gList(bd), gList(be))
}

// attrKinds lists the 14 kinds' codes and names.
var kindNames = []string{"", "string", "int", "int8", "int16", "int32", "int64", "uint", "uint8", "uint16", "uint32", "uint64", "bool", "time", "bytes"}

func gAttrOf(name string, code int, nullable bool) string {
	return gAttr(jsonapi.Attr{Name: name, Type: code, Nullable: nullable})
}
