package main

import (
	"fmt"
	"reflect"
	"sort"
	"strings"

	"github.com/mfcochauxlaberge/jsonapi"
)

// effective members of a resource object, read from the tree with the rules
// of encoding/json's struct decoding (case-insensitive names, later members
// win, maps merge, null empties a map).
type effPayload struct {
	attrs map[string]*jnode
	rels  map[string]*jnode // relationship objects (nil when null)
	id    *string           // the payload's id member, when it is a string
	typ   *string           // the payload's type member, when it is a string
}

func effective(tree *jnode) effPayload {
	e := effPayload{attrs: map[string]*jnode{}, rels: map[string]*jnode{}}
	if tree == nil || tree.kind != "obj" {
		return e
	}
	for i, k := range tree.keys {
		v := tree.vals[i]
		switch {
		case strings.EqualFold(k, "id"):
			if v.kind == "str" {
				s := v.s
				e.id = &s
			}
		case strings.EqualFold(k, "type"):
			if v.kind == "str" {
				s := v.s
				e.typ = &s
			}
		case strings.EqualFold(k, "attributes"):
			if v.kind == "null" {
				e.attrs = map[string]*jnode{}
			} else if v.kind == "obj" {
				for j, ak := range v.keys {
					e.attrs[ak] = v.vals[j]
				}
			}
		case strings.EqualFold(k, "relationships"):
			if v.kind == "null" {
				e.rels = map[string]*jnode{}
			} else if v.kind == "obj" {
				for j, rk := range v.keys {
					e.rels[rk] = v.vals[j]
				}
			}
		}
	}
	return e
}

// relData returns the effective "data" member of a relationship object.
func relDataMember(ro *jnode) *jnode {
	if ro == nil || ro.kind != "obj" {
		return nil
	}
	var d *jnode
	for i, k := range ro.keys {
		if strings.EqualFold(k, "data") {
			d = ro.vals[i]
		}
	}
	return d
}

func identifierID(o *jnode) string {
	id := ""
	if o != nil && o.kind == "obj" {
		for i, k := range o.keys {
			if strings.EqualFold(k, "id") && o.vals[i].kind == "str" {
				id = o.vals[i].s
			}
		}
	}
	return id
}

func allRelData(t jsonapi.Type) map[string][]string {
	var rels []string
	for k := range t.Rels {
		rels = append(rels, k)
	}
	sort.Strings(rels)
	return map[string][]string{t.Name: rels}
}

func typeFieldNames(t jsonapi.Type) []string {
	var out []string
	for k := range t.Attrs {
		out = append(out, k)
	}
	for k := range t.Rels {
		out = append(out, k)
	}
	sort.Strings(out)
	return out
}

func oPartial(p *jsonapi.SoftResource) string {
	fields := append([]string{"id"}, typeFieldNames(p.GetType())...)
	return oL([]string{oStruct(p), dumpRes(p, fields)})
}

// c13Payload runs one payload through full and partial unmarshaling.
func c13Payload(c *ctx, sc schemaSpec, payload string, how string, prop string) {
	schema := sc.build()
	tree := parseJSON([]byte(payload))
	env := newStdEnv()
	env.addTree(tree)
	var full jsonapi.Resource
	var ferr error
	var part *jsonapi.SoftResource
	var perr error
	pf, _ := guard(func() { full, ferr = jsonapi.UnmarshalResource([]byte(payload), schema) })
	pp, _ := guard(func() { part, perr = jsonapi.UnmarshalPartialResource([]byte(payload), schema) })
	fullOK := !pf && ferr == nil
	partOK := !pp && perr == nil
	var fields []string
	prepath := "/p"
	relData := map[string][]string{}
	o1, o2, o3 := oC("fail"), oC("fail"), oC("fail")
	var key, detail string
	var remarshal *jnode
	if fullOK {
		ft := full.GetType()
		fields = typeFieldNames(ft)
		relData = allRelData(ft)
		o1 = oOk(oResource(full, append([]string{"id"}, fields...)))
		// marshal a second, identical result: MarshalResource sorts to-many IDs in place
		p, _ := guard(func() {
			again, _ := jsonapi.UnmarshalResource([]byte(payload), schema)
			out := jsonapi.MarshalResource(again, prepath, fields, relData)
			remarshal = parseJSON(out)
			// resource-level meta (map[string]any, float64 numbers) is not modelled: drop it
			if remarshal != nil && remarshal.kind == "obj" {
				for i, k := range remarshal.keys {
					if k == "meta" {
						remarshal.keys = append(remarshal.keys[:i], remarshal.keys[i+1:]...)
						remarshal.vals = append(remarshal.vals[:i], remarshal.vals[i+1:]...)
						break
					}
				}
			}
		})
		if !p && remarshal != nil {
			o3 = oOk(remarshal.obs())
			env.addTree(remarshal)
			for _, f := range fields {
				env.addValue(full.Get(f))
			}
		}
	}
	if partOK {
		o2 = oOk(oPartial(part))
	}
	obs := oL([]string{o1, o2, o3})
	eff := effective(tree)
	// ---------- C13: partial unmarshaling reports exactly the fields present ----------
	if prop == "C13" && !pf && !pp {
		if fullOK != partOK {
			key, detail = "partial-accepts-differently", fmt.Sprintf("full ok=%v (%v), partial ok=%v (%v)", fullOK, ferr, partOK, perr)
		}
		if partOK && fullOK {
			st := schema.GetType(part.GetType().Name)
			if st.Name == "" || st.Name != full.GetType().Name {
				key, detail = "partial-type-name", part.GetType().Name
			}
			wantA := map[string]bool{}
			for k := range eff.attrs {
				wantA[k] = true
			}
			gotA := map[string]bool{}
			for k, a := range part.Attrs() {
				gotA[k] = true
				if st.Attrs[k] != a {
					key, detail = "partial-attr-definition", k
				}
			}
			wantR := map[string]bool{}
			for k, ro := range eff.rels {
				if relDataMember(ro) != nil {
					wantR[k] = true
				}
			}
			gotR := map[string]bool{}
			for k, r := range part.Rels() {
				gotR[k] = true
				if st.Rels[k] != r {
					key, detail = "partial-rel-definition", k
				}
			}
			if !reflect.DeepEqual(wantA, gotA) {
				key, detail = "partial-attrs-not-those-present", fmt.Sprintf("payload has %v, partial type has %v", keysOf(wantA), keysOf(gotA))
			}
			if !reflect.DeepEqual(wantR, gotR) {
				key, detail = "partial-rels-not-those-with-data", fmt.Sprintf("payload has data for %v, partial type has %v", keysOf(wantR), keysOf(gotR))
			}
			for k := range gotA {
				if !sameValue(part.Get(k), full.Get(k)) {
					key, detail = "partial-value-differs-from-full", fmt.Sprintf("%s: %s vs %s", k, descValue(part.Get(k)), descValue(full.Get(k)))
				}
			}
			for k := range gotR {
				if !sameValue(part.Get(k), full.Get(k)) {
					key, detail = "partial-value-differs-from-full", fmt.Sprintf("%s: %s vs %s", k, descValue(part.Get(k)), descValue(full.Get(k)))
				}
			}
			if part.Get("id") != full.Get("id") {
				key, detail = "partial-value-differs-from-full", "id"
			}
		}
	}
	// ---------- C06 (resource level): faithful decoding ----------
	if prop == "C06" && fullOK {
		ft := full.GetType()
		if eff.typ != nil && ft.Name != *eff.typ {
			key, detail = "type-differs", fmt.Sprintf("resource is of type %q, payload says %q", ft.Name, *eff.typ)
		}
		if eff.id != nil && full.Get("id") != *eff.id {
			key, detail = "id-differs", fmt.Sprintf("resource has %q, payload says %q", full.Get("id"), *eff.id)
		}
		for k, a := range ft.Attrs {
			raw, present := eff.attrs[k]
			if !present {
				if !sameValue(full.Get(k), jsonapi.GetZeroValue(a.Type, a.Nullable)) {
					key, detail = "absent-field-not-zero", fmt.Sprintf("%s = %s", k, descValue(full.Get(k)))
				}
				continue
			}
			v := full.Get(k)
			if v == nil && a.Nullable {
				v = jsonapi.GetZeroValue(a.Type, a.Nullable)
			}
			if k2, d2 := c06Oracle(a, raw.text(), raw, v, nil); k2 != "" {
				key, detail = k2, "attribute "+k+": "+d2
			}
		}
		for k, r := range ft.Rels {
			d := relDataMember(eff.rels[k])
			if d == nil {
				want := any("")
				if !r.ToOne {
					want = []string{}
				}
				if !sameValue(full.Get(k), want) {
					key, detail = "absent-field-not-zero", fmt.Sprintf("%s = %s", k, descValue(full.Get(k)))
				}
				continue
			}
			if r.ToOne {
				if full.Get(k) != identifierID(d) {
					key, detail = "relationship-id-differs", fmt.Sprintf("%s: %q, payload lists %q", k, full.Get(k), identifierID(d))
				}
			} else {
				var want []string
				if d.kind == "arr" {
					for _, x := range d.arr {
						want = append(want, identifierID(x))
					}
				}
				got, _ := full.Get(k).([]string)
				if len(want) != len(got) || (len(want) > 0 && !reflect.DeepEqual(want, got)) {
					key, detail = "relationship-ids-differ", fmt.Sprintf("%s: %q, payload lists %q", k, got, want)
				}
			}
		}
		// re-marshaling reproduces id, type, attributes and linkage (by denotation)
		if remarshal != nil && key == "" {
			key, detail = c06Remarshal(tree, eff, remarshal, ft)
		}
	}
	// the same through the partial route: every field of the partial resource holds the payload's value
	if prop == "C06" && partOK && key == "" {
		for k, a := range part.Attrs() {
			raw, present := eff.attrs[k]
			if !present {
				continue // which fields are present is C13's
			}
			v := part.Get(k)
			if v == nil && a.Nullable {
				v = jsonapi.GetZeroValue(a.Type, a.Nullable)
			}
			if k2, d2 := c06Oracle(a, raw.text(), raw, v, nil); k2 != "" {
				key, detail = k2, "partial resource, attribute "+k+": "+d2
			}
		}
		for k, r := range part.Rels() {
			d := relDataMember(eff.rels[k])
			if d == nil {
				continue
			}
			if r.ToOne {
				if part.Get(k) != identifierID(d) {
					key, detail = "relationship-id-differs", fmt.Sprintf("partial resource, %s: %q, payload lists %q", k, part.Get(k), identifierID(d))
				}
			} else {
				var want []string
				if d.kind == "arr" {
					for _, x := range d.arr {
						want = append(want, identifierID(x))
					}
				}
				got, _ := part.Get(k).([]string)
				if len(want) != len(got) || (len(want) > 0 && !reflect.DeepEqual(want, got)) {
					key, detail = "relationship-ids-differ", fmt.Sprintf("partial resource, %s: %q, payload lists %q", k, got, want)
				}
			}
		}
	}
	// ---------- what was returned is the caller's, the schema stays the schema's ----------
	if key == "" && (fullOK || partOK) {
		if p, pv := guard(func() {
			snap := func() string {
				var it []string
				for _, t := range schema.Types {
					it = append(it, oType(t))
				}
				return strings.Join(it, " ")
			}
			before := snap()
			if partOK {
				first := oPartial(part)
				for n := range part.Attrs() {
					part.RemoveField(n)
				}
				for n := range part.Rels() {
					part.RemoveField(n)
				}
				part.AddAttr(jsonapi.Attr{Name: "added-to-the-result", Type: jsonapi.AttrTypeInt})
				if snap() != before {
					key, detail = "result-shares-schema", "editing the fields of a partial resource changed the schema"
				} else if again, err := jsonapi.UnmarshalPartialResource([]byte(payload), schema); err != nil || oPartial(again) != first {
					key, detail = "result-shares-schema", fmt.Sprintf("after the fields of one partial result were edited the same payload gives another result (%v)", err)
				}
			}
			if fullOK && key == "" {
				fields := append([]string{"id"}, typeFieldNames(full.GetType())...)
				first := oResource(full, fields)
				// the schema is edited afterwards: other types leave, the resource's own type is replaced
				for len(schema.Types) > 0 && schema.Types[0].Name != full.GetType().Name {
					schema.RemoveType(schema.Types[0].Name)
				}
				name := full.GetType().Name
				schema.RemoveType(name)
				_ = schema.AddType(jsonapi.Type{Name: name})
				if now := oResource(full, fields); now != first {
					key, detail = "result-follows-schema-edit", fmt.Sprintf("a resource returned earlier reads differently after the schema was edited: %s, was %s", now, first)
				}
			}
		}); p && key == "" {
			key, detail = "result-shares-schema", fmt.Sprint(pv)
		}
	}
	outcome := fmt.Sprintf("full=%v partial=%v", fullOK, partOK)
	c.count("outcome:" + outcome)
	c.count("how:" + how)
	nattr, nrel := len(eff.attrs), len(eff.rels)
	feature := fmt.Sprintf("%s %s attrs=%d rels=%d", how, outcome, min(nattr, 6), min(nrel, 3))
	treeG := "JNull"
	if tree != nil {
		treeG = tree.gallina()
	} else {
		// not JSON: both entry points must fail, before any modelled logic
		if key == "" && (fullOK || partOK) {
			key, detail = "invalid-json-accepted", fmt.Sprintf("full ok=%v, partial ok=%v", fullOK, partOK)
		}
		k := c.add("bytes", payload, "not-json "+outcome, false, oL(nil), oL(nil), key, detail)
		k.Replay = how + ": " + payload
		return
	}
	k := c.add("payload", payload, feature, nattr+nrel == 0,
		fmt.Sprintf("(run_unmarshal %s %s %s %s %s %s)", env.gallina(), sc.gallina(), treeG, gStrs(fields), gStr(prepath), gRelData(relData)),
		obs, key, detail)
	k.Replay = how + ": " + payload
}

func keysOf(m map[string]bool) []string {
	var out []string
	for k := range m {
		out = append(out, k)
	}
	sort.Strings(out)
	return out
}

// c06Remarshal compares the payload with the re-marshaled result by denotation.
func c06Remarshal(tree *jnode, eff effPayload, out *jnode, ft jsonapi.Type) (string, string) {
	oe := effective(out)
	if eff.id != nil && (oe.id == nil || *oe.id != *eff.id) {
		return "remarshal-changes-id", fmt.Sprintf("%q", *eff.id)
	}
	if eff.typ != nil && (oe.typ == nil || *oe.typ != *eff.typ) {
		return "remarshal-changes-type", fmt.Sprintf("%q", *eff.typ)
	}
	for k, raw := range eff.attrs {
		got, ok := oe.attrs[k]
		if !ok {
			return "remarshal-drops-attribute", k
		}
		a := ft.Attrs[k]
		if !sameDenotation(a, raw, got) {
			return "remarshal-changes-attribute", fmt.Sprintf("%s: %s became %s", k, raw.text(), got.text())
		}
	}
	for k, ro := range eff.rels {
		d := relDataMember(ro)
		if d == nil {
			continue
		}
		gd := relDataMember(oe.rels[k])
		if gd == nil {
			return "remarshal-drops-linkage", k
		}
		if ft.Rels[k].ToOne {
			if identifierID(d) != identifierID(gd) {
				return "remarshal-changes-linkage", k
			}
		} else {
			var a, b []string
			if d.kind == "arr" {
				for _, x := range d.arr {
					a = append(a, identifierID(x))
				}
			}
			if gd.kind == "arr" {
				for _, x := range gd.arr {
					b = append(b, identifierID(x))
				}
			}
			sort.Strings(a)
			sort.Strings(b)
			if !reflect.DeepEqual(a, b) && len(a)+len(b) > 0 {
				return "remarshal-changes-linkage", fmt.Sprintf("%s: %q became %q", k, a, b)
			}
		}
	}
	return "", ""
}

// sameDenotation: numbers numerically, times by instant, byte strings by
// decoded bytes, everything else structurally.
func sameDenotation(a jsonapi.Attr, x, y *jnode) bool {
	if x.kind == "null" || y.kind == "null" {
		// a nil byte slice is written as null and an empty one as "": both empty
		if a.Type == jsonapi.AttrTypeBytes && !a.Nullable {
			// null stays null (the recorded finding accepts it); an empty byte string,
			// written "" or [], comes back as "" -- not as null
			if x.kind == "null" {
				return y.kind == "null"
			}
			emptyX := (x.kind == "str" && x.s == "") || (x.kind == "arr" && len(x.arr) == 0)
			return emptyX && y.kind == "str" && y.s == ""
		}
		return x.kind == y.kind
	}
	switch a.Type {
	case 2, 3, 4, 5, 6, 7, 8, 9, 10, 11:
		if x.kind != "num" || y.kind != "num" {
			return false
		}
		return strings.TrimLeft(strings.TrimPrefix(x.lit, "-"), "0") == strings.TrimLeft(strings.TrimPrefix(y.lit, "-"), "0") &&
			(strings.HasPrefix(x.lit, "-") == strings.HasPrefix(y.lit, "-") || strings.Trim(x.lit, "-0") == "")
	case 13:
		s1, n1, ok1 := ownRFC3339(x.s)
		s2, n2, ok2 := ownRFC3339(y.s)
		if !ok1 {
			return true // lenient forms: outside "RFC 3339 times"
		}
		return ok2 && s1 == s2 && n1 == n2
	case 14:
		if x.kind == "arr" {
			return true // array form of bytes: outside "base64 byte strings"
		}
		b1, ok1 := ownBase64(x.s)
		b2, ok2 := ownBase64(y.s)
		if !ok1 {
			return true
		}
		return ok2 && string(b1) == string(b2)
	}
	return x.text() == y.text()
}

func payloadSchema(r *rng) (schemaSpec, string) {
	all := allKindsSpec("alltypes", "other")
	small := randTypeSpec(r, "small", 5, []string{"other", "alltypes"})
	sc := schemaSpec{types: []typeSpec{all, {name: "other"}, small}, wrapped: map[string]bool{"alltypes": r.bool(), "small": r.bool()}}
	return sc, pick(r, []string{"alltypes", "small", "alltypes", "other"})
}

func runPayloads(c *ctx, prop string) {
	n := 500
	if c.thorough() {
		n = 12000
	}
	// several relationships of either cardinality, some null / empty, some not: what one
	// relationship decodes must not leak into another (repeated: Go walks the payload's
	// relationships in map order)
	{
		links := typeSpec{name: "links4", fields: []fieldSpec{{name: "title", code: 1},
			{rel: true, name: "author", toOne: true, target: "other"}, {rel: true, name: "editor", toOne: true, target: "other"},
			{rel: true, name: "owner", toOne: true, target: "other"}, {rel: true, name: "reviewer", toOne: true, target: "other"},
			{rel: true, name: "tags", target: "other"}, {rel: true, name: "cats", target: "other"}, {rel: true, name: "refs", target: "other"},
			// a relationship that is its own inverse
			{rel: true, name: "friends", target: "links4", inv: "friends"},
			// a relationship to a type the schema does not (yet) hold
			{rel: true, name: "ghost", toOne: true, target: "absent"}}}
		ident := func(id string) *jnode { return jObj().set("id", jString(id)).set("type", jString("other")) }
		for _, wrapped := range []bool{false, true} {
			sc := schemaSpec{types: []typeSpec{links, {name: "other"}}, wrapped: map[string]bool{"links4": wrapped}}
			for mask := 0; mask < 16; mask++ {
				rels := jObj()
				for i, rn := range []string{"author", "editor", "owner", "reviewer"} {
					if mask&(1<<i) != 0 {
						rels.set(rn, jObj().set("data", ident(fmt.Sprint("p", i))))
					} else {
						rels.set(rn, jObj().set("data", jNull()))
					}
				}
				for i, rn := range []string{"tags", "cats", "refs"} {
					switch (mask + i) % 4 {
					case 0:
						rels.set(rn, jObj().set("data", jArr(ident(fmt.Sprint("t", i)), ident("t9"))))
					case 1:
						rels.set(rn, jObj().set("data", jArr()))
					case 3:
						// identifiers that do not say their id
						rels.set(rn, jObj().set("data", jArr(jObj().set("type", jString("other")))))
					}
				}
				if mask&2 != 0 {
					rels.set("ghost", jObj().set("data", jObj().set("id", jString("g1")).set("type", jString("absent"))))
				}
				if mask&1 != 0 {
					rels.set("friends", jObj().set("data", jArr(jObj().set("id", jString("f1")).set("type", jString("links4")))))
				}
				o := jObj().set("id", jString("a1")).set("type", jString("links4")).set("attributes", jObj().set("title", jString("x"))).set("relationships", rels)
				reps := 3
				if c.thorough() {
					reps = 8
				}
				for k := 0; k < reps; k++ {
					c13Payload(c, sc, o.text(), "several-relationships", prop)
				}
			}
		}
	}
	// every subset of a small type's fields present
	sub := typeSpec{name: "sub", fields: []fieldSpec{
		{name: "a", code: 1}, {name: "b", code: 3, nullable: true}, {name: "c", code: 14},
		{rel: true, name: "one", toOne: true, target: "other"}, {rel: true, name: "many", target: "other"}}}
	for _, wrapped := range []bool{false, true} {
		sc := schemaSpec{types: []typeSpec{sub, {name: "other"}}, wrapped: map[string]bool{"sub": wrapped}}
		for mask := 0; mask < 32; mask++ {
			for variant := 0; variant < 3; variant++ {
				o := jObj().set("id", jString("1")).set("type", jString("sub"))
				attrs, rels := jObj(), jObj()
				if mask&1 != 0 {
					attrs.set("a", jString("x"))
				}
				if mask&2 != 0 {
					attrs.set("b", []*jnode{jNum("-128"), jNull(), jNum("7")}[variant])
				}
				if mask&4 != 0 {
					attrs.set("c", []*jnode{jString("YWJj"), jNull(), jString("")}[variant])
				}
				if mask&8 != 0 {
					rels.set("one", []*jnode{jObj().set("data", jObj().set("id", jString("7")).set("type", jString("other"))),
						jObj().set("data", jNull()), jObj().set("links", jObj())}[variant])
				}
				if mask&16 != 0 {
					rels.set("many", []*jnode{jObj().set("data", jArr(jObj().set("id", jString("b")).set("type", jString("other")), jObj().set("id", jString("a")).set("type", jString("other")), jObj().set("id", jString("b")).set("type", jString("other")))),
						jObj().set("data", jArr()), jObj().set("meta", jObj())}[variant])
				}
				if len(attrs.keys) > 0 {
					o.set("attributes", attrs)
				}
				if len(rels.keys) > 0 {
					o.set("relationships", rels)
				}
				c13Payload(c, sc, o.text(), "subset", prop)
			}
		}
	}
	for i := 0; i < n; i++ {
		sc, tn := payloadSchema(c.r)
		p := genResourcePayload(c.r, sc, tn)
		how := "valid-shaped"
		if c.r.chance(1, 2) {
			how = mutatePayload(c.r, p)
			if c.r.chance(1, 4) {
				how += "+" + mutatePayload(c.r, p)
			}
		}
		c13Payload(c, sc, p.text(), how, prop)
		if c.r.chance(1, 10) {
			// the type name with white space around it, or in another case: another name
			q := p.clone()
			q.set("type", jString(pick(c.r, []string{tn + " ", " " + tn, tn + "\n", strings.ToUpper(tn), "\t" + tn + " "})))
			c13Payload(c, sc, q.text(), how+"+type-padded", prop)
		}
		if c.r.chance(1, 8) {
			// something after (or before) the JSON value
			t := pick(c.r, []string{" {}", "]", ",1", " x", "}", "\n\n", " \t", "\x00", " null", p.text()})
			if c.r.chance(1, 6) {
				c13Payload(c, sc, strings.TrimSpace(t)+p.text(), how+"+leading", prop)
			} else {
				c13Payload(c, sc, p.text()+t, how+"+trailing", prop)
			}
		}
	}
}

func runC13(c *ctx) { runPayloads(c, "C13") }

func init() {
	imports := []string{"Model.GoTime", "Gen.TypeGo", "Model.Schema", "Model.Value", "Model.Json", "Model.SoftRes", "Model.Wrapper", "Model.Resource", "Model.Unmarshal", "Model.C17", "Model.C01"}
	register("C13", imports, runC13)
}
