package main

// Narrow Go -> Gallina translator (DESIGN.md section 3.2).
//
// It re-reads /repo's source on every run and emits Gallina definitions for a
// fixed list of pure, first-order functions.  Only a small Go fragment is
// understood; anything else makes the translator fail with "source shape not
// recognised", which the orchestrator treats as a broken tie.
//
// Only go/parser, go/ast and go/token are used.

import (
	"fmt"
	"go/ast"
	"go/parser"
	"go/token"
	"os"
	"path/filepath"
	"sort"
	"strconv"
	"strings"
)

type xerr struct{ msg string }

func xfail(pos token.Pos, fset *token.FileSet, format string, a ...any) {
	p := ""
	if fset != nil && pos.IsValid() {
		p = fset.Position(pos).String() + ": "
	}
	panic(xerr{p + "source shape not recognised: " + fmt.Sprintf(format, a...)})
}

// Gallina types used by the translator.
const (
	tStr   = "string"
	tBool  = "bool"
	tZ     = "Z"
	tRel   = "rel"
	tBytes = "list Z"
	tStrs  = "list string"
	tTime  = "gtime"
)

type xl struct {
	fset   *token.FileSet
	consts map[string]bool   // integer constants emitted as Z definitions
	funcs  map[string]string // Go function/method name -> Gallina name
	frets  map[string]string // Gallina name -> return type
	fields map[string]string // Rel field -> type
}

func snake(s string) string {
	var b strings.Builder
	for i, r := range s {
		if r >= 'A' && r <= 'Z' {
			if i > 0 {
				b.WriteByte('_')
			}
			b.WriteRune(r - 'A' + 'a')
		} else {
			b.WriteRune(r)
		}
	}
	return b.String()
}

func coqStr(s string) string {
	for i := 0; i < len(s); i++ {
		if s[i] < 0x20 || s[i] > 0x7e {
			return "(hx \"" + fmt.Sprintf("%x", s) + "\")"
		}
	}
	return "\"" + strings.ReplaceAll(s, "\"", "\"\"") + "\""
}

func (x *xl) goType(e ast.Expr) string {
	switch t := e.(type) {
	case *ast.Ident:
		switch t.Name {
		case "string":
			return tStr
		case "bool":
			return tBool
		case "int", "int64", "uint64":
			return tZ
		case "Rel":
			return tRel
		}
	case *ast.StarExpr:
		return x.goType(t.X)
	case *ast.ArrayType:
		if t.Len == nil {
			if id, ok := t.Elt.(*ast.Ident); ok {
				switch id.Name {
				case "byte", "uint8":
					return tBytes
				case "string":
					return tStrs
				}
			}
		}
	case *ast.SelectorExpr:
		if id, ok := t.X.(*ast.Ident); ok && id.Name == "time" && t.Sel.Name == "Time" {
			return tTime
		}
	}
	xfail(e.Pos(), x.fset, "unsupported type")
	return ""
}

type env map[string]string // Go variable -> Gallina type

func (e env) copy() env {
	n := env{}
	for k, v := range e {
		n[k] = v
	}
	return n
}

// expr translates an expression and returns (gallina, type).
func (x *xl) expr(e ast.Expr, en env) (string, string) {
	switch t := e.(type) {
	case *ast.ParenExpr:
		return x.expr(t.X, en)
	case *ast.BasicLit:
		switch t.Kind {
		case token.STRING:
			s, err := strconv.Unquote(t.Value)
			if err != nil {
				xfail(t.Pos(), x.fset, "string literal")
			}
			return coqStr(s), tStr
		case token.INT:
			return "(" + t.Value + ")%Z", tZ
		}
	case *ast.Ident:
		switch t.Name {
		case "true", "false":
			return t.Name, tBool
		}
		if ty, ok := en[t.Name]; ok {
			return "v_" + t.Name, ty
		}
		if x.consts[t.Name] {
			return t.Name, tZ
		}
	case *ast.StarExpr:
		return x.expr(t.X, en)
	case *ast.SelectorExpr:
		s, ty := x.expr(t.X, en)
		if ty == tRel {
			ft, ok := x.fields[t.Sel.Name]
			if !ok {
				xfail(t.Pos(), x.fset, "unknown Rel field %s", t.Sel.Name)
			}
			return "(" + snake(t.Sel.Name) + " " + s + ")", ft
		}
	case *ast.UnaryExpr:
		if t.Op == token.NOT {
			s, ty := x.expr(t.X, en)
			if ty == tBool {
				return "(negb " + s + ")", tBool
			}
		}
	case *ast.BinaryExpr:
		a, ta := x.expr(t.X, en)
		b, tb := x.expr(t.Y, en)
		if ta != tb {
			xfail(t.Pos(), x.fset, "operands of different types %s/%s", ta, tb)
		}
		bin := func(f string) string { return "(" + f + " " + a + " " + b + ")" }
		switch t.Op {
		case token.LAND:
			if ta == tBool {
				return "(" + a + " && " + b + ")", tBool
			}
		case token.LOR:
			if ta == tBool {
				return "(" + a + " || " + b + ")", tBool
			}
		case token.ADD:
			if ta == tStr {
				return "(" + a + " ++ " + b + ")", tStr
			}
		case token.EQL, token.NEQ:
			var s string
			switch ta {
			case tStr:
				s = bin("String.eqb")
			case tZ:
				s = bin("Z.eqb")
			case tBool:
				s = bin("Bool.eqb")
			default:
				xfail(t.Pos(), x.fset, "== on %s", ta)
			}
			if t.Op == token.NEQ {
				s = "(negb " + s + ")"
			}
			return s, tBool
		case token.LSS, token.LEQ, token.GTR, token.GEQ:
			var lt, le string
			switch ta {
			case tStr:
				lt, le = "String.ltb", "String.leb"
			case tZ:
				lt, le = "Z.ltb", "Z.leb"
			default:
				xfail(t.Pos(), x.fset, "ordering on %s", ta)
			}
			switch t.Op {
			case token.LSS:
				return "(" + lt + " " + a + " " + b + ")", tBool
			case token.LEQ:
				return "(" + le + " " + a + " " + b + ")", tBool
			case token.GTR:
				return "(" + lt + " " + b + " " + a + ")", tBool
			default:
				return "(" + le + " " + b + " " + a + ")", tBool
			}
		}
	case *ast.CompositeLit:
		if id, ok := t.Type.(*ast.Ident); ok && id.Name == "Rel" {
			vals := map[string]string{}
			for _, el := range t.Elts {
				kv, ok := el.(*ast.KeyValueExpr)
				if !ok {
					xfail(el.Pos(), x.fset, "positional struct literal")
				}
				k := kv.Key.(*ast.Ident).Name
				v, vt := x.expr(kv.Value, en)
				if x.fields[k] != vt {
					xfail(el.Pos(), x.fset, "field %s of type %s given %s", k, x.fields[k], vt)
				}
				vals[k] = v
			}
			var parts []string
			for _, f := range relFieldOrder {
				v, ok := vals[f]
				if !ok {
					if x.fields[f] == tStr {
						v = "\"\""
					} else {
						v = "false"
					}
				}
				parts = append(parts, v)
			}
			return "(mkRel " + strings.Join(parts, " ") + ")", tRel
		}
	case *ast.CallExpr:
		switch f := t.Fun.(type) {
		case *ast.Ident:
			if f.Name == "len" && len(t.Args) == 1 {
				a, ta := x.expr(t.Args[0], en)
				if ta == tBytes || ta == tStrs {
					return "(Z.of_nat (List.length " + a + "))", tZ
				}
			}
			if g, ok := x.funcs[f.Name]; ok {
				var args []string
				for _, a := range t.Args {
					s, _ := x.expr(a, en)
					args = append(args, s)
				}
				return "(" + g + " " + strings.Join(args, " ") + ")", x.frets[g]
			}
		case *ast.SelectorExpr:
			if id, ok := f.X.(*ast.Ident); ok && id.Name == "bytes" && len(t.Args) == 2 && f.Sel.Name == "Compare" {
				a, at := x.expr(t.Args[0], en)
				b, bt := x.expr(t.Args[1], en)
				if at == tBytes && bt == tBytes {
					return "(bytes_compare " + a + " " + b + ")", tZ
				}
				xfail(t.Pos(), x.fset, "bytes.Compare on non-byte-slices")
			}
			if id, ok := f.X.(*ast.Ident); ok && id.Name == "strings" && len(t.Args) == 2 {
				a, at := x.expr(t.Args[0], en)
				b, bt := x.expr(t.Args[1], en)
				if at == tStr && bt == tStr && f.Sel.Name == "HasPrefix" {
					return "(String.prefix " + b + " " + a + ")", tBool
				}
				xfail(t.Pos(), x.fset, "strings.%s", f.Sel.Name)
			}
			recv, rt := x.expr(f.X, en)
			if rt == tRel {
				if g, ok := x.funcs["Rel."+f.Sel.Name]; ok && len(t.Args) == 0 {
					return "(" + g + " " + recv + ")", x.frets[g]
				}
			}
			if rt == tTime && len(t.Args) == 1 {
				a, at := x.expr(t.Args[0], en)
				if at == tTime {
					switch f.Sel.Name {
					case "Equal":
						return "(time_equal " + recv + " " + a + ")", tBool
					case "Before":
						return "(time_before " + recv + " " + a + ")", tBool
					case "After":
						return "(time_before " + a + " " + recv + ")", tBool
					}
				}
			}
		}
	case *ast.SliceExpr:
		// t[1:] on strings
		if t.High == nil && t.Low != nil {
			if lit, ok := t.Low.(*ast.BasicLit); ok && lit.Value == "1" {
				a, ta := x.expr(t.X, en)
				if ta == tStr {
					return "(match " + a + " with String _ r => r | EmptyString => EmptyString end)", tStr
				}
			}
		}
	}
	xfail(e.Pos(), x.fset, "expression %T", e)
	return "", ""
}

// assigned returns the set of variables assigned (not declared) in stmts, or
// nil,false if the block contains a return.
func hasReturn(stmts []ast.Stmt) bool {
	found := false
	for _, s := range stmts {
		ast.Inspect(s, func(n ast.Node) bool {
			if _, ok := n.(*ast.ReturnStmt); ok {
				found = true
			}
			return true
		})
	}
	return found
}

func assignedVars(stmts []ast.Stmt) []string {
	set := map[string]bool{}
	for _, s := range stmts {
		ast.Inspect(s, func(n ast.Node) bool {
			if a, ok := n.(*ast.AssignStmt); ok && a.Tok != token.DEFINE {
				for _, l := range a.Lhs {
					if id, ok := l.(*ast.Ident); ok {
						set[id.Name] = true
					}
				}
			}
			return true
		})
	}
	var out []string
	for k := range set {
		out = append(out, k)
	}
	sort.Strings(out)
	return out
}

// block translates stmts followed by continuation k (a Gallina expression
// builder evaluated in the environment reached at the end of stmts).  rt is
// the function's return type.
func (x *xl) block(stmts []ast.Stmt, en env, rt string, k func(env) string) string {
	if len(stmts) == 0 {
		return k(en)
	}
	s := stmts[0]
	rest := func(e2 env) string { return x.block(stmts[1:], e2, rt, k) }
	switch t := s.(type) {
	case *ast.ReturnStmt:
		if len(t.Results) == 1 {
			v, vt := x.expr(t.Results[0], en)
			if vt != rt {
				xfail(t.Pos(), x.fset, "return of %s in function returning %s", vt, rt)
			}
			return v
		}
		if len(t.Results) == 2 && rt == "Z * bool" {
			a, at := x.expr(t.Results[0], en)
			b, bt := x.expr(t.Results[1], en)
			if at == tZ && bt == tBool {
				return "(" + a + ", " + b + ")"
			}
		}
	case *ast.AssignStmt:
		if len(t.Lhs) == 1 && len(t.Rhs) == 1 {
			id, ok := t.Lhs[0].(*ast.Ident)
			if ok {
				v, vt := x.expr(t.Rhs[0], en)
				e2 := en.copy()
				switch t.Tok {
				case token.DEFINE:
					e2[id.Name] = vt
				case token.ASSIGN:
					if en[id.Name] != vt {
						xfail(t.Pos(), x.fset, "assignment changes type")
					}
				case token.ADD_ASSIGN:
					if en[id.Name] != tStr || vt != tStr {
						xfail(t.Pos(), x.fset, "+= on non-string")
					}
					v = "(v_" + id.Name + " ++ " + v + ")"
				default:
					xfail(t.Pos(), x.fset, "assignment operator")
				}
				return "let v_" + id.Name + " := " + v + " in\n  " + rest(e2)
			}
		}
	case *ast.IfStmt:
		if t.Init == nil {
			c, ct := x.expr(t.Cond, en)
			if ct != tBool {
				xfail(t.Pos(), x.fset, "condition not boolean")
			}
			var els []ast.Stmt
			if t.Else != nil {
				switch e := t.Else.(type) {
				case *ast.BlockStmt:
					els = e.List
				case *ast.IfStmt:
					els = []ast.Stmt{e}
				}
			}
			if hasReturn(t.Body.List) || hasReturn(els) {
				// Branches fall through to the rest when they do not return.
				return "(if " + c + "\n  then " + x.block(t.Body.List, en, rt, rest) +
					"\n  else " + x.block(els, en, rt, rest) + ")"
			}
			vars := assignedVars(append(append([]ast.Stmt{}, t.Body.List...), els...))
			if len(vars) == 1 {
				v := vars[0]
				fin := func(e2 env) string { return "v_" + v }
				return "let v_" + v + " := (if " + c + "\n  then " + x.block(t.Body.List, en, en[v], fin) +
					"\n  else " + x.block(els, en, en[v], fin) + ") in\n  " + rest(en)
			}
		}
	case *ast.SwitchStmt:
		if t.Init == nil && t.Tag != nil {
			tag, tt := x.expr(t.Tag, en)
			var eq string
			switch tt {
			case tStr:
				eq = "String.eqb"
			case tZ:
				eq = "Z.eqb"
			default:
				xfail(t.Pos(), x.fset, "switch on %s", tt)
			}
			var clauses []*ast.CaseClause
			var def *ast.CaseClause
			all := []ast.Stmt{}
			for _, c := range t.Body.List {
				cc := c.(*ast.CaseClause)
				all = append(all, cc.Body...)
				if cc.List == nil {
					def = cc
				} else {
					clauses = append(clauses, cc)
				}
			}
			build := func(cont func(env) string, brt string) string {
				var b strings.Builder
				for _, cc := range clauses {
					var conds []string
					for _, ce := range cc.List {
						v, vt := x.expr(ce, en)
						if vt != tt {
							xfail(ce.Pos(), x.fset, "case of different type")
						}
						conds = append(conds, "("+eq+" "+tag+" "+v+")")
					}
					b.WriteString("if " + strings.Join(conds, " || ") + " then " +
						x.block(cc.Body, en, brt, cont) + "\n  else ")
				}
				if def != nil {
					b.WriteString(x.block(def.Body, en, brt, cont))
				} else {
					b.WriteString(cont(en))
				}
				return b.String()
			}
			if hasReturn(all) {
				return build(rest, rt)
			}
			vars := assignedVars(all)
			if len(vars) == 1 {
				v := vars[0]
				fin := func(e2 env) string { return "v_" + v }
				return "let v_" + v + " := (" + build(fin, en[v]) + ") in\n  " + rest(en)
			}
		}
	case *ast.ForStmt:
		// for i := 0; i < len(a) && i < len(b); i++ { if a[i] OP b[i] { return C } }
		if a, b, op, ret, ok := x.scanLoop(t); ok {
			av, at := x.expr(a, en)
			bv, bt := x.expr(b, en)
			rv, rtt := x.expr(ret, en)
			if at == tBytes && bt == tBytes && rtt == rt {
				var p string
				switch op {
				case token.NEQ:
					p = "(fun x y => negb (Z.eqb x y))"
				case token.LSS:
					p = "(fun x y => Z.ltb x y)"
				case token.GTR:
					p = "(fun x y => Z.ltb y x)"
				case token.EQL:
					p = "(fun x y => Z.eqb x y)"
				case token.LEQ:
					p = "(fun x y => Z.leb x y)"
				case token.GEQ:
					p = "(fun x y => Z.leb y x)"
				}
				return "(if scan2 " + p + " " + av + " " + bv + " then " + rv + "\n  else " + rest(en) + ")"
			}
		}
	case *ast.RangeStmt:
		// for i := range ids { if id == ids[i] { return true } }
		if t.Value == nil && t.Key != nil && len(t.Body.List) == 1 {
			if ifs, ok := t.Body.List[0].(*ast.IfStmt); ok && ifs.Else == nil && ifs.Init == nil && len(ifs.Body.List) == 1 {
				if ret, ok := ifs.Body.List[0].(*ast.ReturnStmt); ok && len(ret.Results) == 1 {
					if be, ok := ifs.Cond.(*ast.BinaryExpr); ok && be.Op == token.EQL {
						if ix, ok := be.Y.(*ast.IndexExpr); ok {
							if sameIdent(ix.Index, t.Key) && sameIdentExpr(ix.X, t.X) {
								l, lt := x.expr(t.X, en)
								v, vt := x.expr(be.X, en)
								r, rtt := x.expr(ret.Results[0], en)
								if lt == tStrs && vt == tStr && rtt == rt {
									return "(if existsb (fun y => String.eqb " + v + " y) " + l + " then " + r + "\n  else " + rest(en) + ")"
								}
							}
						}
					}
				}
			}
		}
	}
	xfail(s.Pos(), x.fset, "statement %T", s)
	return ""
}

func sameIdent(a, b ast.Expr) bool {
	x, ok1 := a.(*ast.Ident)
	y, ok2 := b.(*ast.Ident)
	return ok1 && ok2 && x.Name == y.Name
}
func sameIdentExpr(a, b ast.Expr) bool { return sameIdent(a, b) }

func (x *xl) scanLoop(f *ast.ForStmt) (a, b ast.Expr, op token.Token, ret ast.Expr, ok bool) {
	init, ok1 := f.Init.(*ast.AssignStmt)
	post, ok2 := f.Post.(*ast.IncDecStmt)
	cond, ok3 := f.Cond.(*ast.BinaryExpr)
	if !ok1 || !ok2 || !ok3 || init.Tok != token.DEFINE || post.Tok != token.INC || cond.Op != token.LAND {
		return
	}
	iv, okI := init.Lhs[0].(*ast.Ident)
	if lit, okL := init.Rhs[0].(*ast.BasicLit); !okI || !okL || lit.Value != "0" || !sameIdent(post.X, iv) {
		return
	}
	lenOf := func(e ast.Expr) ast.Expr {
		be, ok := e.(*ast.BinaryExpr)
		if !ok || be.Op != token.LSS || !sameIdent(be.X, iv) {
			return nil
		}
		c, ok := be.Y.(*ast.CallExpr)
		if !ok || len(c.Args) != 1 {
			return nil
		}
		if id, ok := c.Fun.(*ast.Ident); !ok || id.Name != "len" {
			return nil
		}
		return c.Args[0]
	}
	a, b = lenOf(cond.X), lenOf(cond.Y)
	if a == nil || b == nil || len(f.Body.List) != 1 {
		return
	}
	ifs, okF := f.Body.List[0].(*ast.IfStmt)
	if !okF || ifs.Else != nil || ifs.Init != nil || len(ifs.Body.List) != 1 {
		return
	}
	r, okR := ifs.Body.List[0].(*ast.ReturnStmt)
	c, okC := ifs.Cond.(*ast.BinaryExpr)
	if !okR || !okC || len(r.Results) != 1 {
		return
	}
	ia, okA := c.X.(*ast.IndexExpr)
	ib, okB := c.Y.(*ast.IndexExpr)
	if !okA || !okB || !sameIdent(ia.Index, iv) || !sameIdent(ib.Index, iv) ||
		!sameIdentExpr(ia.X, a) || !sameIdentExpr(ib.X, b) {
		return
	}
	switch c.Op {
	case token.NEQ, token.LSS, token.GTR, token.EQL, token.LEQ, token.GEQ:
	default:
		return
	}
	return a, b, c.Op, r.Results[0], true
}

var relFieldOrder []string

type fnSpec struct {
	goName string // "Rel.Invert" or "GetAttrTypeString"
}

func (x *xl) function(fd *ast.FuncDecl, gname string) string {
	en := env{}
	var params []string
	if fd.Recv != nil {
		r := fd.Recv.List[0]
		ty := x.goType(r.Type)
		en[r.Names[0].Name] = ty
		params = append(params, "(v_"+r.Names[0].Name+" : "+ty+")")
	}
	for _, p := range fd.Type.Params.List {
		ty := x.goType(p.Type)
		for _, n := range p.Names {
			en[n.Name] = ty
			params = append(params, "(v_"+n.Name+" : "+ty+")")
		}
	}
	var rt string
	switch len(fd.Type.Results.List) {
	case 1:
		rt = x.goType(fd.Type.Results.List[0].Type)
	case 2:
		a := x.goType(fd.Type.Results.List[0].Type)
		b := x.goType(fd.Type.Results.List[1].Type)
		rt = a + " * " + b
	default:
		xfail(fd.Pos(), x.fset, "result list")
	}
	x.frets[gname] = rt
	body := x.block(fd.Body.List, en, rt, func(env) string {
		xfail(fd.End(), x.fset, "function %s may fall off its end", gname)
		return ""
	})
	return "Definition " + gname + " " + strings.Join(params, " ") + " : " + rt + " :=\n  " + body + ".\n"
}

// xlateFile translates the listed functions (in the given order, which must
// be a dependency order) of one Go file.
func xlateFile(path string, withRel bool, withConsts bool, fns []string, header string) (out string, err error) {
	defer func() {
		if r := recover(); r != nil {
			if xe, ok := r.(xerr); ok {
				err = fmt.Errorf("%s", xe.msg)
				return
			}
			panic(r)
		}
	}()
	fset := token.NewFileSet()
	f, perr := parser.ParseFile(fset, path, nil, 0)
	if perr != nil {
		return "", perr
	}
	x := &xl{fset: fset, consts: map[string]bool{}, funcs: map[string]string{}, frets: map[string]string{}, fields: map[string]string{}}
	var b strings.Builder
	b.WriteString("(* GENERATED by verifharness xlate from " + filepath.Base(path) + " -- do not edit. *)\n")
	b.WriteString(header)
	// Rel's fields are needed by every file that mentions Rel.
	relFieldOrder = nil
	relSrc := path
	if !withRel {
		relSrc = filepath.Join(filepath.Dir(path), "type.go")
	}
	rf, perr := parser.ParseFile(fset, relSrc, nil, 0)
	if perr != nil {
		return "", perr
	}
	for _, d := range rf.Decls {
		gd, ok := d.(*ast.GenDecl)
		if !ok || gd.Tok != token.TYPE {
			continue
		}
		for _, s := range gd.Specs {
			ts := s.(*ast.TypeSpec)
			st, ok := ts.Type.(*ast.StructType)
			if ts.Name.Name != "Rel" || !ok {
				continue
			}
			for _, fl := range st.Fields.List {
				ty := x.goType(fl.Type)
				for _, n := range fl.Names {
					x.fields[n.Name] = ty
					relFieldOrder = append(relFieldOrder, n.Name)
				}
			}
		}
	}
	if withRel {
		if len(relFieldOrder) == 0 {
			xfail(token.NoPos, nil, "struct Rel not found")
		}
		b.WriteString("Record rel : Type := mkRel {\n")
		for i, n := range relFieldOrder {
			sep := ";"
			if i == len(relFieldOrder)-1 {
				sep = ""
			}
			b.WriteString("  " + snake(n) + " : " + x.fields[n] + sep + "\n")
		}
		b.WriteString("}.\n\n")
	}
	if withConsts {
		for _, d := range f.Decls {
			gd, ok := d.(*ast.GenDecl)
			if !ok || gd.Tok != token.CONST {
				continue
			}
			iota := 0
			isIota := false
			for _, s := range gd.Specs {
				vs := s.(*ast.ValueSpec)
				if len(vs.Values) == 1 {
					if id, ok := vs.Values[0].(*ast.Ident); ok && id.Name == "iota" {
						isIota = true
					} else {
						isIota = false
					}
				}
				if !isIota || len(vs.Names) != 1 {
					xfail(vs.Pos(), fset, "constant block is not a plain iota enumeration")
				}
				x.consts[vs.Names[0].Name] = true
				b.WriteString(fmt.Sprintf("Definition %s : Z := %d%%Z.\n", vs.Names[0].Name, iota))
				iota++
			}
		}
		b.WriteString("\n")
	}
	decls := map[string]*ast.FuncDecl{}
	for _, d := range f.Decls {
		fd, ok := d.(*ast.FuncDecl)
		if !ok {
			continue
		}
		name := fd.Name.Name
		if fd.Recv != nil {
			rt := fd.Recv.List[0].Type
			if st, ok := rt.(*ast.StarExpr); ok {
				rt = st.X
			}
			if id, ok := rt.(*ast.Ident); ok {
				name = id.Name + "." + name
			}
		}
		decls[name] = fd
	}
	for _, fn := range fns {
		fd, ok := decls[fn]
		if !ok {
			xfail(token.NoPos, nil, "function %s not found in %s", fn, path)
		}
		gname := snake(strings.ReplaceAll(fn, ".", ""))
		x.funcs[fn] = gname
		if strings.Contains(fn, ".") {
			// methods are called as r.Invert()
			x.funcs[fn] = gname
		}
		b.WriteString(x.function(fd, gname))
		b.WriteString("\n")
	}
	return b.String(), nil
}

type xlateJob struct {
	src, dst   string
	withRel    bool
	withConsts bool
	fns        []string
	header     string
}

var xlateJobs = []xlateJob{
	{
		src: "type.go", dst: "TypeGo.v", withRel: true, withConsts: true,
		fns:    []string{"Rel.Invert", "Rel.Normalize", "Rel.String", "GetAttrType", "GetAttrTypeString"},
		header: "From JV Require Import Model.Base.\nOpen Scope string_scope.\n\n",
	},
	{
		src: "schema.go", dst: "SchemaGo.v",
		fns:    []string{"relLess"},
		header: "From JV Require Import Model.Base Gen.TypeGo.\nOpen Scope string_scope.\n\n",
	},
	{
		src: "filter.go", dst: "FilterGo.v",
		fns:    []string{"checkStr", "checkInt", "checkUint", "checkBool", "checkTime", "checkBytes", "checkIn"},
		header: "From JV Require Import Model.Base Model.GoTime.\nOpen Scope string_scope.\n\n",
	},
}

// cmdXlate regenerates coq/Gen/*.v from repo; files are rewritten only when
// their content changes so that make stays incremental.
func cmdXlate(repo, outDir string) error {
	var firstErr error
	for _, j := range xlateJobs {
		txt, err := xlateFile(filepath.Join(repo, j.src), j.withRel, j.withConsts, j.fns, j.header)
		dst := filepath.Join(outDir, j.dst)
		if err != nil {
			fmt.Fprintf(os.Stderr, "xlate %s: %v\n", j.src, err)
			if firstErr == nil {
				firstErr = err
			}
			continue
		}
		old, _ := os.ReadFile(dst)
		if string(old) != txt {
			if err := os.WriteFile(dst, []byte(txt), 0o644); err != nil {
				return err
			}
		}
	}
	effs, err := computeEffects(repo)
	if err != nil && effs == nil {
		fmt.Fprintf(os.Stderr, "xlate effects: %v\n", err)
		if firstErr == nil {
			firstErr = err
		}
		return firstErr
	}
	txt := effectsGallina(effs)
	dst := filepath.Join(outDir, "EffectsGo.v")
	old, _ := os.ReadFile(dst)
	if string(old) != txt {
		if err := os.WriteFile(dst, []byte(txt), 0o644); err != nil {
			return err
		}
	}
	return firstErr
}
