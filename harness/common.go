package main

import (
	"encoding/hex"
	"encoding/json"
	"fmt"
	"os"
	"path/filepath"
	"sort"
	"strings"
)

// ---- deterministic PRNG (splitmix64): every random choice derives from it ----

type rng struct{ s uint64 }

func newRng(seed uint64) *rng { return &rng{s: seed*0x9E3779B97F4A7C15 + 0x1234567} }

func (r *rng) next() uint64 {
	r.s += 0x9E3779B97F4A7C15
	z := r.s
	z = (z ^ (z >> 30)) * 0xBF58476D1CE4E5B9
	z = (z ^ (z >> 27)) * 0x94D049BB133111EB
	return z ^ (z >> 31)
}
func (r *rng) intn(n int) int {
	if n <= 0 {
		return 0
	}
	return int(r.next() % uint64(n))
}
func (r *rng) bool() bool           { return r.next()&1 == 1 }
func (r *rng) chance(p, q int) bool { return r.intn(q) < p }
func pick[T any](r *rng, xs []T) T  { return xs[r.intn(len(xs))] }
func shuffle[T any](r *rng, xs []T) {
	for i := len(xs) - 1; i > 0; i-- {
		j := r.intn(i + 1)
		xs[i], xs[j] = xs[j], xs[i]
	}
}

// ---- Gallina term printers ----

func gStr(s string) string {
	for i := 0; i < len(s); i++ {
		if s[i] < 0x20 || s[i] > 0x7e || s[i] == '"' {
			return "(hx \"" + hex.EncodeToString([]byte(s)) + "\")"
		}
	}
	return "\"" + s + "\""
}
func gBool(b bool) string {
	if b {
		return "true"
	}
	return "false"
}
func gZ(z any) string   { return fmt.Sprintf("(%v)%%Z", z) }
func gNat(n int) string { return fmt.Sprintf("%d%%nat", n) }
func gList(items []string) string {
	if len(items) == 0 {
		return "[]"
	}
	return "[" + strings.Join(items, "; ") + "]"
}
func gStrs(xs []string) string {
	it := make([]string, len(xs))
	for i, x := range xs {
		it[i] = gStr(x)
	}
	return gList(it)
}
func gOpt(present bool, v string) string {
	if !present {
		return "None"
	}
	return "(Some " + v + ")"
}
func gPair(a, b string) string { return "(" + a + ", " + b + ")" }

// observation constructors (Gallina terms of type obs)
func oS(s string) string                { return "(OS " + gStr(s) + ")" }
func oZ(z any) string                   { return "(OZ " + gZ(z) + ")" }
func oB(b bool) string                  { return "(OB " + gBool(b) + ")" }
func oL(items []string) string          { return "(OL " + gList(items) + ")" }
func oC(tag string, a ...string) string { return "(OC " + gStr(tag) + " " + gList(a) + ")" }
func oOk(a string) string               { return oC("ok", a) }
func oErr() string                      { return oC("err") }
func oPanic() string                    { return oC("panic") }

// ---- case collection ----

type caseRec struct {
	Idx      int    `json:"idx"`
	Kind     string `json:"kind"`
	Model    string `json:"-"`       // Gallina term of type obs: the model run
	Obs      string `json:"-"`       // Gallina term of type obs: what Go did
	Desc     string `json:"desc"`    // human readable input
	Feature  string `json:"feature"` // feature vector for the distinct count
	Trivial  bool   `json:"trivial"`
	PropFail string `json:"prop_fail,omitempty"` // "" = ok, else "<key>: <detail>"
	FailKey  string `json:"fail_key,omitempty"`
	Replay   string `json:"replay,omitempty"` // self-contained replay text
}

type ctx struct {
	prop    string
	tier    string
	seed    uint64
	r       *rng
	cases   []*caseRec
	counts  map[string]int // distribution counters for the evidence
	imports []string       // Coq modules the cases file needs
	notes   []string
	// extra known-finding lines to print (key -> example)
	replayOnly []string
}

func (c *ctx) thorough() bool { return c.tier == "thorough" }
func (c *ctx) count(k string) { c.counts[k]++ }

// add records one correspondence case.  model and obs are Gallina terms of
// type obs; propFail is "" when the direct oracle is satisfied.
func (c *ctx) add(kind, desc, feature string, trivial bool, model, obs, failKey, failDetail string) *caseRec {
	cr := &caseRec{Idx: len(c.cases), Kind: kind, Model: model, Obs: obs, Desc: desc,
		Feature: kind + "|" + feature, Trivial: trivial}
	if failKey != "" {
		cr.FailKey = failKey
		cr.PropFail = failKey + ": " + failDetail
	}
	c.cases = append(c.cases, cr)
	c.count("kind:" + kind)
	return cr
}

// merge appends the cases another context collected.
func (c *ctx) merge(o *ctx) {
	for _, cr := range o.cases {
		cr.Idx = len(c.cases)
		c.cases = append(c.cases, cr)
	}
	for k, v := range o.counts {
		c.counts[k] += v
	}
}

// guard runs f and reports whether it panicked.
func guard(f func()) (panicked bool, val any) {
	defer func() {
		if r := recover(); r != nil {
			panicked = true
			val = r
		}
	}()
	f()
	return false, nil
}

const shardSizeMax = 200

func (c *ctx) write(outDir string) error {
	if err := os.MkdirAll(outDir, 0o755); err != nil {
		return err
	}
	old, _ := filepath.Glob(filepath.Join(outDir, "cases_*.v"))
	for _, f := range old {
		os.Remove(f)
	}
	old, _ = filepath.Glob(filepath.Join(outDir, "cases_*.*"))
	for _, f := range old {
		os.Remove(f)
	}
	nshards := 0
	// at least 16 shards when there is enough work, so that all cores are used
	shardSize := shardSizeMax
	total := 0
	for _, k := range c.cases {
		total += len(k.Model) + len(k.Obs)
	}
	if per := (len(c.cases) + 31) / 32; per < shardSize && total > 400000 {
		shardSize = per
		if shardSize < 5 {
			shardSize = 5
		}
	}
	for start := 0; start < len(c.cases); start += shardSize {
		end := start + shardSize
		if end > len(c.cases) {
			end = len(c.cases)
		}
		var b strings.Builder
		b.WriteString("From JV Require Import Model.Base " + strings.Join(c.imports, " ") + ".\n")
		b.WriteString("Open Scope string_scope.\n")
		// chunks of 25 keep the list notation shallow
		var chunks []string
		for cs := start; cs < end; cs += 25 {
			ce := cs + 25
			if ce > end {
				ce = end
			}
			name := fmt.Sprintf("chunk_%d", cs)
			chunks = append(chunks, name)
			b.WriteString("Definition " + name + " : list (Z * obs * obs) := [\n")
			for i := cs; i < ce; i++ {
				k := c.cases[i]
				sep := ";"
				if i == ce-1 {
					sep = ""
				}
				b.WriteString(fmt.Sprintf("  (%d%%Z, %s,\n     %s)%s\n", k.Idx, k.Model, k.Obs, sep))
			}
			b.WriteString("].\n")
		}
		b.WriteString("Definition mism := Eval vm_compute in mismatches (" + strings.Join(chunks, " ++ ") + ")%list.\n")
		b.WriteString("Definition mism_idx := Eval vm_compute in map fst mism.\n")
		b.WriteString("Print mism_idx.\nPrint mism.\n")
		fn := filepath.Join(outDir, fmt.Sprintf("cases_%03d.v", nshards))
		if err := os.WriteFile(fn, []byte(b.String()), 0o644); err != nil {
			return err
		}
		nshards++
	}
	// summary for the orchestrator
	feat := map[string]bool{}
	inputs := map[string]bool{}
	nontriv := 0
	for _, k := range c.cases {
		if !k.Trivial {
			nontriv++
			feat[k.Feature] = true
			inputs[k.Kind+"|"+k.Model] = true // the model term holds the whole input of the case
		}
	}
	var fails []*caseRec
	for _, k := range c.cases {
		if k.PropFail != "" {
			fails = append(fails, k)
		}
	}
	var samples []map[string]string
	step := len(c.cases)/5 + 1
	for i := 0; i < len(c.cases); i += step {
		k := c.cases[i]
		samples = append(samples, map[string]string{"kind": k.Kind, "input": k.Desc, "impl_observation": k.Obs})
	}
	keys := make([]string, 0, len(c.counts))
	for k := range c.counts {
		keys = append(keys, k)
	}
	sort.Strings(keys)
	dist := map[string]int{}
	for _, k := range keys {
		dist[k] = c.counts[k]
	}
	descs := make([]map[string]any, len(c.cases))
	for i, k := range c.cases {
		descs[i] = map[string]any{"idx": k.Idx, "kind": k.Kind, "desc": k.Desc, "obs": k.Obs, "model": k.Model, "replay": k.Replay}
	}
	sum := map[string]any{
		"property":            c.prop,
		"tier":                c.tier,
		"seed":                c.seed,
		"evaluations":         len(c.cases),
		"nontrivial":          nontriv,
		"distinct_nontrivial": len(inputs),
		"distinct_features":   len(feat),
		"shards":              nshards,
		"distribution":        dist,
		"prop_fails":          fails,
		"samples":             samples,
		"notes":               c.notes,
	}
	bs, _ := json.MarshalIndent(sum, "", " ")
	if err := os.WriteFile(filepath.Join(outDir, "impl.json"), bs, 0o644); err != nil {
		return err
	}
	bs, _ = json.Marshal(descs)
	return os.WriteFile(filepath.Join(outDir, "cases.json"), bs, 0o644)
}

type propRunner func(c *ctx)

var runners = map[string]propRunner{}
var runnerImports = map[string][]string{}

func register(prop string, imports []string, f propRunner) {
	runners[prop] = f
	runnerImports[prop] = imports
}
