package main

// Generation of resource payloads as JSON text: valid-shaped trees over a
// schema, then member-by-member mutation.

import (
	"encoding/json"
	"strings"
)

func jNull() *jnode            { return &jnode{kind: "null"} }
func jBool(b bool) *jnode      { return &jnode{kind: "bool", b: b} }
func jNum(l string) *jnode     { return &jnode{kind: "num", lit: l} }
func jString(s string) *jnode  { return &jnode{kind: "str", s: s} }
func jArr(xs ...*jnode) *jnode { return &jnode{kind: "arr", arr: xs} }
func jObj() *jnode             { return &jnode{kind: "obj"} }
func (n *jnode) set(k string, v *jnode) *jnode {
	n.keys = append(n.keys, k)
	n.vals = append(n.vals, v)
	return n
}

// text prints the tree (keys in order, duplicates kept).
func (n *jnode) text() string {
	switch n.kind {
	case "null":
		return "null"
	case "bool":
		if n.b {
			return "true"
		}
		return "false"
	case "num":
		return n.lit
	case "str":
		b, _ := json.Marshal(n.s)
		return string(b)
	case "arr":
		var it []string
		for _, x := range n.arr {
			it = append(it, x.text())
		}
		return "[" + strings.Join(it, ",") + "]"
	default:
		var it []string
		for i := range n.keys {
			kb, _ := json.Marshal(n.keys[i])
			it = append(it, string(kb)+":"+n.vals[i].text())
		}
		return "{" + strings.Join(it, ",") + "}"
	}
}

func (n *jnode) clone() *jnode {
	c := *n
	c.arr = nil
	c.keys = append([]string{}, n.keys...)
	c.vals = nil
	for _, x := range n.arr {
		c.arr = append(c.arr, x.clone())
	}
	for _, x := range n.vals {
		c.vals = append(c.vals, x.clone())
	}
	return &c
}

func jsonOfValue(v any) *jnode {
	b, err := json.Marshal(v)
	if err != nil {
		return jNull()
	}
	return parseJSON(b)
}

var offKind = []*jnode{jNull(), jBool(true), jNum("5"), jNum("-1.5e3"), jString("x"), jString(""), jArr(), jArr(jNum("1")), jObj(), jObj().set("id", jString("1"))}

// genResourcePayload draws a valid-shaped resource object of type tn.
func genResourcePayload(r *rng, sc schemaSpec, tn string) *jnode {
	t := sc.spec(tn)
	o := jObj()
	if !r.chance(1, 12) {
		o.set("id", jString(pick(r, dictIDs)))
	}
	o.set("type", jString(tn))
	attrs := jObj()
	rels := jObj()
	if t != nil {
		for _, f := range t.fields {
			if r.chance(2, 5) {
				continue
			}
			if f.rel {
				ro := jObj()
				switch r.intn(6) {
				case 0: // no data member
					ro.set("links", jObj().set("self", jString("/x")))
				case 1:
					ro.set("data", jNull())
				default:
					if f.toOne {
						ro.set("data", jObj().set("id", jString(pick(r, dictIDs))).set("type", jString(f.target)))
					} else {
						var ids []*jnode
						for _, id := range randIDs(r) {
							ids = append(ids, jObj().set("id", jString(id)).set("type", jString(f.target)))
						}
						ro.set("data", jArr(ids...))
					}
					if r.chance(1, 4) {
						ro.set("meta", jObj().set("k", jNum("1")))
					}
				}
				rels.set(f.name, ro)
			} else {
				var v *jnode
				switch {
				case r.chance(1, 10):
					v = pick(r, offKind).clone()
				case f.nullable && r.chance(1, 4):
					v = jNull()
				default:
					v = jsonOfValue(pick(r, dictValues(f.code)))
				}
				attrs.set(f.name, v)
			}
		}
	}
	if len(attrs.keys) > 0 || r.chance(1, 4) {
		o.set("attributes", attrs)
	}
	if len(rels.keys) > 0 || r.chance(1, 4) {
		o.set("relationships", rels)
	}
	if r.chance(1, 6) {
		o.set("meta", jObj().set("m", jArr(jNum("1"), jNull())))
	}
	if r.chance(1, 6) {
		o.set("links", jObj().set("self", jString("/"+tn+"/1")))
	}
	if r.chance(1, 3) {
		shuffleMembers(r, o)
	}
	return o
}

func shuffleMembers(r *rng, o *jnode) {
	for i := len(o.keys) - 1; i > 0; i-- {
		j := r.intn(i + 1)
		o.keys[i], o.keys[j] = o.keys[j], o.keys[i]
		o.vals[i], o.vals[j] = o.vals[j], o.vals[i]
	}
}

// allObjects lists the object nodes of a tree.
func allObjects(n *jnode, acc *[]*jnode) {
	switch n.kind {
	case "obj":
		*acc = append(*acc, n)
		for _, v := range n.vals {
			allObjects(v, acc)
		}
	case "arr":
		for _, v := range n.arr {
			allObjects(v, acc)
		}
	}
}

func caseVary(r *rng, k string) string {
	switch r.intn(4) {
	case 0:
		return strings.ToUpper(k)
	case 1:
		if len(k) > 0 {
			return strings.ToUpper(k[:1]) + k[1:]
		}
	case 2:
		if i := strings.IndexByte(k, 's'); i >= 0 {
			return k[:i] + "ſ" + k[i+1:]
		}
		if i := strings.IndexByte(k, 'k'); i >= 0 {
			return k[:i] + "K" + k[i+1:]
		}
	}
	return k + "x"
}

var unknownNames = []string{"nope", "", "id", "ID", "attributeſ", "data", "type"}

// mutatePayload damages one member of a random object of the tree.
func mutatePayload(r *rng, root *jnode) string {
	var objs []*jnode
	allObjects(root, &objs)
	o := pick(r, objs)
	if len(o.keys) == 0 {
		o.set(pick(r, unknownNames), pick(r, offKind).clone())
		return "add-unknown"
	}
	i := r.intn(len(o.keys))
	switch r.intn(7) {
	case 0:
		o.vals[i] = pick(r, offKind).clone()
		return "wrong-kind"
	case 1:
		o.keys = append(o.keys[:i], o.keys[i+1:]...)
		o.vals = append(o.vals[:i], o.vals[i+1:]...)
		return "remove"
	case 2:
		o.set(o.keys[i], pick(r, offKind).clone())
		return "duplicate-offkind"
	case 3:
		o.set(o.keys[i], o.vals[i].clone())
		shuffleMembers(r, o)
		return "duplicate-same"
	case 4:
		o.keys[i] = caseVary(r, o.keys[i])
		return "case-vary"
	case 5:
		o.set(pick(r, unknownNames), pick(r, offKind).clone())
		return "add-unknown"
	default:
		if o.vals[i].kind == "str" {
			o.vals[i] = jString(pick(r, []string{"zz", "", "other", "ALLTYPES"}))
			return "other-string"
		}
		o.vals[i] = jNull()
		return "null"
	}
}
