package main

// C18, type level: AddAttr / AddRel / RemoveField on a soft resource or on its
// Copy / New never change the fields of the other one.

import (
	"fmt"
	"reflect"
	"strings"

	"github.com/mfcochauxlaberge/jsonapi"
)

type c18TOp struct {
	kind string // addattr addrel remove
	who  bool   // true: the source
	attr jsonapi.Attr
	rel  jsonapi.Rel
	name string
}

func (o c18TOp) gallina() string {
	switch o.kind {
	case "addattr":
		return fmt.Sprintf("(TAddAttr %s %s)", gBool(o.who), gAttr(o.attr))
	case "addrel":
		return fmt.Sprintf("(TAddRel %s %s)", gBool(o.who), gRel(o.rel))
	default:
		return fmt.Sprintf("(TRemoveField %s %s)", gBool(o.who), gStr(o.name))
	}
}

func (o c18TOp) String() string {
	w := "copy"
	if o.who {
		w = "source"
	}
	switch o.kind {
	case "addattr":
		return fmt.Sprintf("%s.AddAttr(%s)", w, o.attr.Name)
	case "addrel":
		return fmt.Sprintf("%s.AddRel(%s)", w, o.rel.FromName)
	default:
		return fmt.Sprintf("%s.RemoveField(%s)", w, o.name)
	}
}

func c18Types(c *ctx, t typeSpec, useNew bool, ops []c18TOp) {
	c18TypesOn(c, t, useNew, ops, false)
	if tagSafeSpec(t) {
		// the same with a type that BuildType made from a Go struct (it carries a NewFunc)
		c18TypesOn(c, t, useNew, ops, true)
	}
}

func tagSafeSpec(t typeSpec) bool {
	if !tagSafe(t.name) {
		return false
	}
	for _, f := range t.fields {
		if !tagSafe(f.name) || (f.rel && !tagSafe(f.target)) || (f.rel && f.inv != "" && !tagSafe(f.inv)) {
			return false
		}
	}
	return true
}

func c18TypesOn(c *ctx, t typeSpec, useNew bool, ops []c18TOp, built bool) {
	var steps, descs, gops []string
	var key, detail string
	if built {
		t.noFrom = false
	}
	for _, o := range ops {
		descs = append(descs, o.String())
		gops = append(gops, o.gallina())
	}
	p, pv := guard(func() {
		ty := t.softType()
		if built {
			bt, err := jsonapi.BuildType(reflect.New(t.structType()).Interface())
			if err != nil {
				panic("BuildType: " + err.Error())
			}
			ty = bt
		}
		src := &jsonapi.SoftResource{Type: &ty}
		var other *jsonapi.SoftResource
		if useNew {
			other = src.New().(*jsonapi.SoftResource)
		} else {
			other = src.Copy().(*jsonapi.SoftResource)
		}
		obs := func() string { return oL([]string{oType(src.GetType()), oType(other.GetType())}) }
		steps = append(steps, obs())
		if a, b := oType(src.GetType()), oType(other.GetType()); a != b && key == "" {
			key, detail = "copy-of-another-type", fmt.Sprintf("source %s, the other %s", a, b)
		}
		if tc := ty.Copy(); !tc.Equal(ty) && key == "" {
			key, detail = "copy-of-another-type", "Type.Copy is not Equal to its source"
		}
		for i, o := range ops {
			target, untouched := other, src
			if o.who {
				target, untouched = src, other
			}
			before := oType(untouched.GetType())
			switch o.kind {
			case "addattr":
				target.AddAttr(o.attr)
			case "addrel":
				target.AddRel(o.rel)
			default:
				target.RemoveField(o.name)
			}
			if after := oType(untouched.GetType()); after != before && key == "" {
				key, detail = "type-edit-reaches-the-other", fmt.Sprintf("step %d %s changed the other resource's type", i, o)
			}
			steps = append(steps, obs())
		}
	})
	if p {
		steps = append(steps, oPanic())
		key, detail = "type-edit-panics", fmt.Sprint(pv)
	}
	how := "Copy"
	if useNew {
		how = "New"
	}
	if built {
		how += " of a soft resource over a struct-built type"
	}
	k := c.add("type-edits", fmt.Sprintf("%s%v %s; %s", t.name, t.fieldNames(), how, strings.Join(descs, "; ")),
		fmt.Sprintf("%s ops=%d fields=%d", how, min(len(ops), 8), min(len(t.fields), 6)), len(ops) == 0,
		fmt.Sprintf("(run_c18_types %s %s)", t.gType(), gList(gops)), oL(steps), key, detail)
	k.Replay = "type-edits"
}

func c18RandTOp(r *rng, t typeSpec) c18TOp {
	names := append(t.fieldNames(), "added", "x", "late")
	who := r.bool()
	switch r.intn(3) {
	case 0:
		return c18TOp{kind: "addattr", who: who, attr: jsonapi.Attr{Name: pick(r, names), Type: pick(r, []int{1, 2, 12, 14}), Nullable: r.bool()}}
	case 1:
		return c18TOp{kind: "addrel", who: who, rel: jsonapi.Rel{FromType: t.name, FromName: pick(r, names), ToOne: r.bool(), ToType: "other"}}
	default:
		return c18TOp{kind: "remove", who: who, name: pick(r, names)}
	}
}

func runC18Types(c *ctx) {
	n := 60
	if c.thorough() {
		n = 1500
	}
	for i := 0; i < n; i++ {
		t := randTypeSpec(c.r, "t", 5, []string{"other"})
		var ops []c18TOp
		for k := c.r.intn(8); k > 0; k-- {
			ops = append(ops, c18RandTOp(c.r, t))
		}
		c18Types(c, t, c.r.bool(), ops)
	}
}
