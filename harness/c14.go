package main

import (
	"fmt"
	"reflect"
	"sort"
	"strings"

	"github.com/mfcochauxlaberge/jsonapi"
)

type c14Op struct {
	kind string // addtype removetype addattr removeattr addrel removerel addtwoway
	typ  jsonapi.Type
	n    string
	n2   string
	attr jsonapi.Attr
	rel  jsonapi.Rel
}

func (o c14Op) gallina() string {
	switch o.kind {
	case "addtype":
		return "(OpAddType " + gType(o.typ) + ")"
	case "removetype":
		return "(OpRemoveType " + gStr(o.n) + ")"
	case "addattr":
		return "(OpAddAttr " + gStr(o.n) + " " + gAttr(o.attr) + ")"
	case "removeattr":
		return "(OpRemoveAttr " + gStr(o.n) + " " + gStr(o.n2) + ")"
	case "addrel":
		return "(OpAddRel " + gStr(o.n) + " " + gRel(o.rel) + ")"
	case "removerel":
		return "(OpRemoveRel " + gStr(o.n) + " " + gStr(o.n2) + ")"
	default:
		return "(OpAddTwoWayRel " + gRel(o.rel) + ")"
	}
}

func (o c14Op) String() string {
	switch o.kind {
	case "addtype":
		return fmt.Sprintf("AddType(%q)", o.typ.Name)
	case "removetype":
		return fmt.Sprintf("RemoveType(%q)", o.n)
	case "addattr":
		return fmt.Sprintf("AddAttr(%q, {%q %d %v})", o.n, o.attr.Name, o.attr.Type, o.attr.Nullable)
	case "removeattr":
		return fmt.Sprintf("RemoveAttr(%q, %q)", o.n, o.n2)
	case "addrel":
		return fmt.Sprintf("AddRel(%q, %s)", o.n, descRel(o.rel))
	case "removerel":
		return fmt.Sprintf("RemoveRel(%q, %q)", o.n, o.n2)
	default:
		return fmt.Sprintf("AddTwoWayRel(%s)", descRel(o.rel))
	}
}

func oAttr(a jsonapi.Attr) string { return oC("attr", oS(a.Name), oZ(a.Type), oB(a.Nullable)) }

func oType(t jsonapi.Type) string {
	ak := make([]string, 0, len(t.Attrs))
	for k := range t.Attrs {
		ak = append(ak, k)
	}
	sort.Strings(ak)
	var as []string
	for _, k := range ak {
		as = append(as, oL([]string{oS(k), oAttr(t.Attrs[k])}))
	}
	rk := make([]string, 0, len(t.Rels))
	for k := range t.Rels {
		rk = append(rk, k)
	}
	sort.Strings(rk)
	var rs []string
	for _, k := range rk {
		rs = append(rs, oL([]string{oS(k), oRel(t.Rels[k])}))
	}
	return oC("type", oS(t.Name), oL(as), oL(rs))
}

func oSchema(s *jsonapi.Schema) string {
	var ts []string
	for _, t := range s.Types {
		ts = append(ts, oType(t))
	}
	return oL(ts)
}

func deepCopySchema(s *jsonapi.Schema) *jsonapi.Schema {
	return &jsonapi.Schema{Types: copyTypes(s.Types)}
}

// typesEqual compares two schemas, identifying nil and empty maps.
func typesEqual(a, b []jsonapi.Type) bool {
	if len(a) != len(b) {
		return false
	}
	for i := range a {
		if a[i].Name != b[i].Name || len(a[i].Attrs) != len(b[i].Attrs) || len(a[i].Rels) != len(b[i].Rels) {
			return false
		}
		for k, v := range a[i].Attrs {
			if w, ok := b[i].Attrs[k]; !ok || w != v {
				return false
			}
		}
		for k, v := range a[i].Rels {
			if w, ok := b[i].Rels[k]; !ok || w != v {
				return false
			}
		}
	}
	return true
}

// c14WellFormed evaluates the invariant of the property text on the Go schema.
// nilness: which maps of which types are nil (a failed edit leaves the schema
// exactly as it was, nil maps included)
func nilness(ts []jsonapi.Type) []bool {
	var out []bool
	for _, t := range ts {
		out = append(out, t.Attrs == nil, t.Rels == nil)
	}
	return out
}

func c14WellFormed(s *jsonapi.Schema) string {
	seen := map[string]bool{}
	for _, t := range s.Types {
		if t.Name == "" {
			return "empty type name"
		}
		if seen[t.Name] {
			return "duplicate type name " + t.Name
		}
		seen[t.Name] = true
		an := map[string]bool{}
		for k, a := range t.Attrs {
			if a.Name == "" || an[a.Name] || k != a.Name {
				return fmt.Sprintf("type %q: attribute name %q (key %q) empty, duplicate or mis-keyed", t.Name, a.Name, k)
			}
			an[a.Name] = true
			if a.Type < jsonapi.AttrTypeString || a.Type > jsonapi.AttrTypeBytes {
				return fmt.Sprintf("type %q: attribute %q has invalid kind %d", t.Name, a.Name, a.Type)
			}
		}
		rn := map[string]bool{}
		for k, r := range t.Rels {
			if r.FromName == "" || rn[r.FromName] || k != r.FromName {
				return fmt.Sprintf("type %q: relationship name %q (key %q) empty, duplicate or mis-keyed", t.Name, r.FromName, k)
			}
			rn[r.FromName] = true
			if r.ToType == "" {
				return fmt.Sprintf("type %q: relationship %q has an empty target type", t.Name, r.FromName)
			}
		}
	}
	return ""
}

func c14History(c *ctx, ops []c14Op, probes []string, how string) {
	c14HistoryLookups(c, ops, probes, how, nil)
	if len(ops) >= 3 {
		// the same history with the library's lookups called on few steps only: a lookup
		// structure that is kept up to date only when it is consulted after every edit
		// would go unnoticed otherwise (the observation on the other steps is read off
		// Schema.Types directly)
		use := make([]bool, len(ops))
		for i := range use {
			use[i] = c.r.chance(1, 4)
		}
		use[len(ops)-1] = true
		c14HistoryLookups(c, ops, probes, how+" sparse-lookups", use)
	}
}

// libGet / libHas: the library's lookup, or (when the step does not consult the
// library) the same answer read off Schema.Types.
func walkGet(s *jsonapi.Schema, n string) jsonapi.Type {
	for _, t := range s.Types {
		if t.Name == n {
			return t
		}
	}
	return jsonapi.Type{}
}

func c14HistoryLookups(c *ctx, ops []c14Op, probes []string, how string, useLib []bool) {
	s := &jsonapi.Schema{}
	var steps []string
	var key, detail string
	panicked := false
	var gops []string
	var descs []string
	nerr, ntw := 0, 0
	for _, o := range ops {
		gops = append(gops, o.gallina())
		descs = append(descs, o.String())
	}
	for i, o := range ops {
		before := deepCopySchema(s)
		nilBefore := nilness(s.Types)
		var err error
		p, pv := guard(func() {
			switch o.kind {
			case "addtype":
				if len(o.typ.Attrs)+len(o.typ.Rels) == 0 {
					err = s.AddType(jsonapi.Type{Name: o.typ.Name}) // nil maps, as a caller would write it
				} else {
					err = s.AddType(o.typ.Copy())
				}
			case "removetype":
				s.RemoveType(o.n)
			case "addattr":
				err = s.AddAttr(o.n, o.attr)
			case "removeattr":
				s.RemoveAttr(o.n, o.n2)
			case "addrel":
				err = s.AddRel(o.n, o.rel)
			case "removerel":
				s.RemoveRel(o.n, o.n2)
			default:
				err = s.AddTwoWayRel(o.rel)
			}
		})
		if p {
			panicked = true
			key, detail = "edit-panics", fmt.Sprintf("step %d %s: %v", i, o, pv)
			break
		}
		if err != nil {
			nerr++
		}
		lib := useLib == nil || useLib[i]
		has := func(n string) bool {
			if lib {
				return s.HasType(n)
			}
			for _, t := range s.Types {
				if t.Name == n {
					return true
				}
			}
			return false
		}
		get := func(n string) jsonapi.Type {
			if lib {
				return s.GetType(n)
			}
			return walkGet(s, n)
		}
		var lk []string
		for _, n := range probes {
			lk = append(lk, oL([]string{oB(has(n)), oType(get(n))}))
		}
		steps = append(steps, oL([]string{oB(err == nil), oSchema(s), oL(lk)}))
		if key != "" {
			continue
		}
		// ---- direct oracle, from the property text ----
		if w := c14WellFormed(s); w != "" {
			key, detail = "schema-not-well-formed", fmt.Sprintf("after step %d %s: %s", i, o, w)
		}
		if err != nil && (!typesEqual(before.Types, s.Types) || !reflect.DeepEqual(nilBefore, nilness(s.Types))) {
			key, detail = "failed-edit-modified-schema", fmt.Sprintf("step %d %s returned %q but changed the schema", i, o, err)
		}
		// lookups agree with the list of types
		for _, n := range probes {
			var found *jsonapi.Type
			for j := range s.Types {
				if s.Types[j].Name == n {
					found = &s.Types[j]
					break
				}
			}
			if has(n) != (found != nil) {
				key, detail = "lookup-disagrees", fmt.Sprintf("HasType(%q) after step %d", n, i)
			}
			gt := get(n)
			if found != nil && !typesEqual([]jsonapi.Type{gt}, []jsonapi.Type{*found}) {
				key, detail = "lookup-disagrees", fmt.Sprintf("GetType(%q) after step %d", n, i)
			}
			if found == nil && (gt.Name != "" || len(gt.Attrs) != 0 || len(gt.Rels) != 0) {
				key, detail = "lookup-disagrees", fmt.Sprintf("GetType(%q) of an absent type after step %d", n, i)
			}
		}
		// removing something absent is a no-op
		switch o.kind {
		case "removetype", "removeattr", "removerel":
			absent := false
			bt := before.GetType(o.n)
			switch o.kind {
			case "removetype":
				absent = !before.HasType(o.n)
			case "removeattr":
				_, ok := bt.Attrs[o.n2]
				absent = !ok
			case "removerel":
				_, ok := bt.Rels[o.n2]
				absent = !ok
			}
			if absent && !typesEqual(before.Types, s.Types) {
				key, detail = "remove-absent-not-noop", fmt.Sprintf("step %d %s", i, o)
			}
		}
		if o.kind == "addrel" && key == "" {
			if _, used := before.GetType(o.n).Rels[o.rel.FromName]; used && err == nil {
				key, detail = "edit-over-taken-name", fmt.Sprintf("step %d %s returned nil although the type had a relationship of that name", i, o)
			}
		}
		// two-way relationship whose types exist and whose names are free succeeds
		if o.kind == "addtwoway" {
			ntw++
			r := o.rel
			selfInv := r.FromType == r.ToType && r.FromName == r.ToName
			ft, tt := before.GetType(r.FromType), before.GetType(r.ToType)
			_, used1 := ft.Rels[r.FromName]
			_, used2 := tt.Rels[r.ToName]
			if before.HasType(r.FromType) && before.HasType(r.ToType) && r.FromName != "" && r.ToName != "" &&
				!used1 && !used2 && !selfInv && c14WellFormed(before) == "" {
				if err != nil {
					key, detail = "two-way-rejected", fmt.Sprintf("step %d %s: %v", i, o, err)
				}
			}
			// ... and one that reuses a relationship name on either side is refused (names stay unique)
			if (used1 || used2) && err == nil && key == "" {
				key, detail = "edit-over-taken-name", fmt.Sprintf("step %d %s returned nil although %s.%s or %s.%s was a relationship already", i, o, r.FromType, r.FromName, r.ToType, r.ToName)
			}
			// whenever the call reports success each side holds the relationship and its inverse
			if err == nil && !selfInv && key == "" {
				a, okA := get(r.FromType).Rels[r.FromName]
				b, okB := get(r.ToType).Rels[r.ToName]
				if !okA || !okB || a != r || b != r.Invert() {
					key, detail = "two-way-sides-wrong", fmt.Sprintf("step %d %s returned nil: from side %s, to side %s", i, o, descRel(a), descRel(b))
				}
			}
		}
	}
	obs := oL(steps)
	if panicked {
		obs = oPanic()
	}
	kinds := map[string]bool{}
	for _, o := range ops {
		kinds[o.kind] = true
	}
	ks := make([]string, 0, len(kinds))
	for k := range kinds {
		ks = append(ks, k)
	}
	sort.Strings(ks)
	feature := fmt.Sprintf("len=%d kinds=%s errs=%d types=%d", len(ops), strings.Join(ks, ","), nerr, len(s.Types))
	c.count(fmt.Sprintf("history-len=%d", min(len(ops), 10)))
	if ntw > 0 {
		c.count("with-two-way")
	}
	desc := strings.Join(descs, "; ")
	k := c.add("hist", desc, feature, len(ops) == 0, "(run_history "+gList(gops)+" "+gStrs(probes)+")", obs, key, detail)
	k.Replay = how + ": " + desc
	_ = reflect.DeepEqual
}

var c14Names = []string{"a", "b", "ab", ""}

func c14RandOp(r *rng, names []string) c14Op {
	n := pick(r, names)
	switch r.intn(12) {
	case 0, 1, 2:
		return c14Op{kind: "addtype", typ: jsonapi.Type{Name: n}}
	case 3:
		return c14Op{kind: "removetype", n: n}
	case 4, 5:
		code := 1 + r.intn(14)
		if r.chance(1, 6) {
			code = pick(r, []int{0, 15, 99, -1})
		}
		return c14Op{kind: "addattr", n: n, attr: jsonapi.Attr{Name: pick(r, names), Type: code, Nullable: r.bool()}}
	case 6:
		return c14Op{kind: "removeattr", n: n, n2: pick(r, names)}
	case 7, 8:
		from := n
		if r.chance(1, 3) {
			from = pick(r, []string{"", "zz"}) // the caller left FromType empty, or wrong: the type is the one named in the call
		}
		return c14Op{kind: "addrel", n: n, rel: jsonapi.Rel{FromType: from, FromName: pick(r, names), ToOne: r.bool(), ToType: pick(r, names), ToName: pick(r, names), FromOne: r.bool()}}
	case 9:
		return c14Op{kind: "removerel", n: n, n2: pick(r, names)}
	default:
		return c14Op{kind: "addtwoway", rel: jsonapi.Rel{FromType: n, FromName: pick(r, names), ToOne: r.bool(), ToType: pick(r, names), ToName: pick(r, names), FromOne: r.bool()}}
	}
}

func runC14(c *ctx) {
	probes := []string{"a", "b", "ab", "", "zz", " a", "a ", "A", "id"}
	mk := func(n string) c14Op { return c14Op{kind: "addtype", typ: jsonapi.Type{Name: n}} }
	// corpus: design-phase witnesses F14a-c
	c14History(c, []c14Op{mk("a"), mk("b"), mk("ab"), {kind: "removetype", n: "a"}}, probes, "corpus F14a remove first")
	c14History(c, []c14Op{mk("a"), mk("b"), mk("ab"), {kind: "removetype", n: "b"}}, probes, "corpus F14a remove middle")
	c14History(c, []c14Op{mk("a"), {kind: "addattr", n: "a", attr: jsonapi.Attr{Name: "x", Type: 99, Nullable: true}}}, probes, "corpus F14b")
	c14History(c, []c14Op{mk("a"), mk("b"), {kind: "addtwoway", rel: jsonapi.Rel{FromType: "b", FromName: "x", ToOne: true, ToType: "a", ToName: "y"}}}, probes, "corpus F14c larger end")
	c14History(c, []c14Op{mk("a"), {kind: "addtwoway", rel: jsonapi.Rel{FromType: "a", FromName: "parent", ToOne: true, ToType: "a", ToName: "children"}}}, probes, "corpus F14c same type")
	c14History(c, []c14Op{mk("a"), {kind: "addtwoway", rel: jsonapi.Rel{FromType: "a", FromName: "x", ToOne: true, ToType: "b", ToName: "y"}}}, probes, "corpus F14c missing type")
	c14History(c, []c14Op{mk("a"), mk("b"), {kind: "addrel", n: "b", rel: jsonapi.Rel{FromType: "b", FromName: "y", ToType: "a"}},
		{kind: "addtwoway", rel: jsonapi.Rel{FromType: "a", FromName: "x", ToOne: true, ToType: "b", ToName: "y"}}}, probes, "corpus F14c name used on other side")
	// exhaustive short histories over a reduced alphabet of operations
	base := []c14Op{
		mk("a"), mk("b"), mk(""),
		{kind: "removetype", n: "a"}, {kind: "removetype", n: "b"},
		{kind: "addattr", n: "a", attr: jsonapi.Attr{Name: "x", Type: 1}},
		{kind: "addattr", n: "a", attr: jsonapi.Attr{Name: "x", Type: 99, Nullable: true}},
		{kind: "removeattr", n: "a", n2: "x"},
		{kind: "addrel", n: "a", rel: jsonapi.Rel{FromType: "a", FromName: "x", ToType: "b"}},
		{kind: "removerel", n: "a", n2: "x"},
		{kind: "addtwoway", rel: jsonapi.Rel{FromType: "b", FromName: "y", ToOne: true, ToType: "a", ToName: "x"}},
		{kind: "addtwoway", rel: jsonapi.Rel{FromType: "a", FromName: "p", ToType: "a", ToName: "c", FromOne: true}},
	}
	depth := 3
	if c.thorough() {
		depth = 4
	}
	var rec func(prefix []c14Op, d int)
	rec = func(prefix []c14Op, d int) {
		if d == 0 {
			c14History(c, append([]c14Op{}, prefix...), probes, "exhaustive")
			return
		}
		for _, o := range base {
			rec(append(prefix, o), d-1)
		}
	}
	rec(nil, depth)
	n := 1200
	if c.thorough() {
		n = 15000
	}
	for i := 0; i < n; i++ {
		l := 1 + c.r.intn(30)
		names := c14Names
		if c.r.chance(1, 4) {
			names = []string{"a", "b", "ab", "c", "bc", ""}
		} else if c.r.chance(1, 4) {
			// member names the format reserves elsewhere are free for types, attributes and relationships
			names = []string{"a", "b", "id", "type", "links", ""}
		} else if c.r.chance(1, 4) {
			// names that differ only by surrounding white space or case are different names
			names = []string{"a", " a", "a ", "A", "b", ""}
		}
		var ops []c14Op
		// start with a few types so that later edits have targets
		for _, nm := range names {
			if nm != "" && c.r.chance(2, 3) {
				ops = append(ops, mk(nm))
			}
		}
		for j := 0; j < l; j++ {
			ops = append(ops, c14RandOp(c.r, names))
		}
		c14History(c, ops, probes, "random")
	}
}

func init() {
	register("C14", []string{"Gen.TypeGo", "Model.Schema", "Model.C14"}, runC14)
}
