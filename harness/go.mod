module verifharness

go 1.21

require (
	github.com/mfcochauxlaberge/jsonapi v0.0.0
)

replace github.com/mfcochauxlaberge/jsonapi => /repo
