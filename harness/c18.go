package main

import (
	"fmt"
	"reflect"
	"sort"
	"strings"
	"unsafe"

	"github.com/mfcochauxlaberge/jsonapi"
)

// model-side terms -------------------------------------------------------

func gNewVal(v any) string {
	switch x := v.(type) {
	case []byte:
		if x == nil {
			return "(NBytes None)"
		}
		return "(NBytes (Some " + gBytes(x) + "))"
	case *[]byte:
		if x == nil {
			return "(NPBytes None)"
		}
		if *x == nil {
			return "(NPBytes (Some None))"
		}
		return "(NPBytes (Some (Some " + gBytes(*x) + ")))"
	case []string:
		if x == nil {
			return "(NStrs None)"
		}
		return "(NStrs (Some " + gStrs(x) + "))"
	}
	return "(NImm " + gValue(v) + ")"
}

func gZeroSlots(t typeSpec) string {
	var it []string
	for _, f := range t.fields {
		var s string
		switch {
		case f.rel && f.toOne:
			s = "(SImm (VStr \"\"))"
		case f.rel:
			s = "(SStrs None)"
		case f.code == 14 && f.nullable:
			s = "(SPBytes None)"
		case f.code == 14:
			s = "(SBytes None)"
		default:
			s = "(SImm " + gValue(jsonapi.GetZeroValue(f.code, f.nullable)) + ")"
		}
		it = append(it, gPair(gStr(f.name), s))
	}
	return gList(it)
}

// observation of one reading, in the form of Model/C18.v's obs_rd
func oRead(v any) string {
	v = canonGo(v)
	switch x := v.(type) {
	case []byte:
		it := make([]string, len(x))
		for i, b := range x {
			it[i] = oZ(b)
		}
		return oC("bytes", oL(it))
	case *[]byte:
		if x == nil {
			return oC("nilptr")
		}
		it := make([]string, len(*x))
		for i, b := range *x {
			it[i] = oZ(b)
		}
		return oC("pbytes", oL(it))
	case []string:
		it := make([]string, len(x))
		for i, s := range x {
			it[i] = oS(s)
		}
		return oC("strs", oL(it))
	}
	return oC("imm", oValue(v))
}

// the untyped nil a Wrapper returns for a nil *[]byte reads as a nil pointer
func oReadField(f fieldSpec, v any) string {
	if !f.rel && f.code == 14 && f.nullable {
		if p, ok := v.(*[]byte); v == nil || (ok && p == nil) {
			return oC("nilptr")
		}
	}
	if v == nil && !f.rel && f.nullable {
		return oC("imm", oC("nil"))
	}
	return oRead(v)
}

func sliceAddr(v any) uintptr {
	switch x := v.(type) {
	case []byte:
		if len(x) > 0 {
			return uintptr(unsafe.Pointer(unsafe.SliceData(x)))
		}
	case *[]byte:
		if x != nil && len(*x) > 0 {
			return uintptr(unsafe.Pointer(unsafe.SliceData(*x)))
		}
	case []string:
		if len(x) > 0 {
			return uintptr(unsafe.Pointer(unsafe.SliceData(x)))
		}
	}
	return 0
}

type c18Op struct {
	kind  string // set setid mut sort
	who   bool
	field string
	val   any
	idx   int
	zb    byte
	zs    string
	fs    []string
}

func (o c18Op) gallina() string {
	switch o.kind {
	case "set":
		return fmt.Sprintf("(HSet %s %s %s)", gBool(o.who), gStr(o.field), gNewVal(o.val))
	case "setid":
		return fmt.Sprintf("(HSetID %s %s)", gBool(o.who), gStr(o.val.(string)))
	case "mut":
		return fmt.Sprintf("(HMut %s %s %s %s %s)", gBool(o.who), gStr(o.field), gNat(o.idx), gZ(o.zb), gStr(o.zs))
	default:
		return fmt.Sprintf("(HSort %s %s)", gBool(o.who), gStrs(o.fs))
	}
}

func (o c18Op) String() string {
	w := "source"
	if o.who {
		w = "copy"
	}
	switch o.kind {
	case "set":
		return fmt.Sprintf("%s.Set(%q, %s)", w, o.field, descValue(o.val))
	case "setid":
		return fmt.Sprintf("%s.Set(id, %q)", w, o.val)
	case "mut":
		return fmt.Sprintf("write element %d of %s.Get(%q)", o.idx, w, o.field)
	default:
		return fmt.Sprintf("marshal/filter %s (sorts %v)", w, o.fs)
	}
}

func readAll(t typeSpec, r jsonapi.Resource) []string {
	var out []string
	for _, f := range t.fields {
		out = append(out, oReadField(f, r.Get(f.name)))
	}
	return out
}

func oPair(t typeSpec, src, cpy jsonapi.Resource) string {
	// shared storage between the two resources
	cp := map[uintptr]bool{}
	for _, f := range t.fields {
		if a := sliceAddr(cpy.Get(f.name)); a != 0 {
			cp[a] = true
		}
	}
	var shared []string
	for _, f := range t.fields {
		if a := sliceAddr(src.Get(f.name)); a != 0 && cp[a] {
			shared = append(shared, oS(f.name))
		}
	}
	return oL([]string{oS(src.Get("id").(string)), oL(readAll(t, src)), oS(cpy.Get("id").(string)), oL(readAll(t, cpy)), oL(shared)})
}

func fieldOrder(t typeSpec) []string {
	var out []string
	for _, f := range t.fields {
		out = append(out, f.name)
	}
	return out
}

func c18Case(c *ctx, t typeSpec, wrapped bool, sets []setOp, id string, ops []c18Op, how string) {
	var steps []string
	var key, detail string
	// printed before anything runs: Set stores the caller's slices, later writes go through them
	var gsets, sdesc []string
	for _, s := range sets {
		gsets = append(gsets, gPair(gStr(s.key), gNewVal(s.val)))
		sdesc = append(sdesc, fmt.Sprintf("%s=%s", s.key, descValue(s.val)))
	}
	var gops, descs []string
	kinds := map[string]bool{}
	for _, o := range ops {
		gops = append(gops, o.gallina())
		descs = append(descs, o.String())
		kinds[o.kind] = true
	}
	p, pv := guard(func() {
		src := buildRes(t, wrapped, append([]setOp{{"id", id}}, sets...))
		// slices obtained from the source BEFORE it is copied
		early := map[string]any{}
		for _, f := range t.fields {
			early[f.name] = src.Get(f.name)
		}
		cpy := src.(jsonapi.Copier).Copy()
		steps = append(steps, oPair(t, src, cpy))
		// writing through them afterwards reaches the source at most, never the copy (each write is undone)
		cpyBefore := readAll(t, cpy)
		for _, f := range t.fields {
			switch x := early[f.name].(type) {
			case []byte:
				if len(x) > 0 {
					old := x[0]
					x[0] ^= 0xff
					if !reflect.DeepEqual(readAll(t, cpy), cpyBefore) && key == "" {
						key, detail = "copy-not-independent", fmt.Sprintf("writing through a slice obtained from the source before Copy (%s) changed the copy", f.name)
					}
					x[0] = old
				}
			case *[]byte:
				if x != nil && len(*x) > 0 {
					old := (*x)[0]
					(*x)[0] ^= 0xff
					if !reflect.DeepEqual(readAll(t, cpy), cpyBefore) && key == "" {
						key, detail = "copy-not-independent", fmt.Sprintf("writing through a slice obtained from the source before Copy (%s) changed the copy", f.name)
					}
					(*x)[0] = old
				}
			case []string:
				if len(x) > 0 {
					old := x[0]
					x[0] = "written-through-early-slice"
					if !reflect.DeepEqual(readAll(t, cpy), cpyBefore) && key == "" {
						key, detail = "copy-not-independent", fmt.Sprintf("writing through a slice obtained from the source before Copy (%s) changed the copy", f.name)
					}
					x[0] = old
				}
			}
		}
		// the copy reads the same as the source
		if a, b := readAll(t, src), readAll(t, cpy); !reflect.DeepEqual(a, b) || src.Get("id") != cpy.Get("id") || src.GetType().Name != cpy.GetType().Name {
			key, detail = "copy-differs-from-source", fmt.Sprintf("%v vs %v", a, b)
		}
		for i, o := range ops {
			tgt, other := src, cpy
			if o.who {
				tgt, other = cpy, src
			}
			before := readAll(t, other)
			beforeID := other.Get("id")
			switch o.kind {
			case "set":
				tgt.Set(o.field, o.val)
			case "setid":
				tgt.Set("id", o.val)
			case "mut":
				switch x := tgt.Get(o.field).(type) {
				case []byte:
					if o.idx < len(x) {
						x[o.idx] = o.zb
					}
				case *[]byte:
					if x != nil && o.idx < len(*x) {
						(*x)[o.idx] = o.zb
					}
				case []string:
					if o.idx < len(x) {
						x[o.idx] = o.zs
					}
				}
			default:
				// marshaling with every relationship's data sorts the to-many IDs in place;
				// so does an equality filter on a to-many relationship
				if len(o.fs) > 1 || !c.r.bool() {
					_ = jsonapi.MarshalResource(tgt, "/", fieldOrder(t), map[string][]string{t.name: o.fs})
				} else if len(o.fs) == 1 {
					(&jsonapi.Filter{Field: o.fs[0], Op: "=", Val: []string{"zz", "a"}}).IsAllowed(tgt)
					ids := tgt.Get(o.fs[0]).([]string)
					if len(ids) != 2 {
						sort.Strings(ids) // the filter sorts only when lengths agree: make the model's step true
					}
				}
			}
			steps = append(steps, oPair(t, src, cpy))
			if after := readAll(t, other); (!reflect.DeepEqual(before, after) || beforeID != other.Get("id")) && key == "" {
				w := "the source"
				if !o.who {
					w = "the copy"
				}
				key, detail = "copy-not-independent", fmt.Sprintf("step %d (%s) changed what is read from %s", i, o, w)
			}
		}
		// type-level independence and New (oracle only: types are values in the model)
		if key == "" {
			nAttrs := len(src.Attrs())
			if sr, ok := cpy.(*jsonapi.SoftResource); ok {
				sr.AddAttr(jsonapi.Attr{Name: "added-by-c18", Type: jsonapi.AttrTypeInt})
				sr.RemoveField(fieldOrder(t)[0])
			}
			if len(src.Attrs())+len(src.Rels()) != len(t.fields) || len(src.Attrs()) != nAttrs {
				key, detail = "type-shared-with-copy", "editing the copy's type changed the source's fields"
			}
			n := src.(jsonapi.Copier).New()
			if n.GetType().Name != t.name || n.Get("id") != "" {
				key, detail = "new-not-zero", "New() is not a zero-valued resource of the type"
			}
			for _, f := range t.fields {
				if f.name != fieldOrder(t)[0] || wrapped {
					if !sameValue(n.Get(f.name), zeroOf(f)) {
						key, detail = "new-not-zero", f.name
					}
				}
			}
			// the new instance shares neither values nor type with its source
			srcBefore := readAll(t, src)
			srcFields := len(src.Attrs()) + len(src.Rels())
			for _, f := range t.fields {
				if f.rel && f.toOne {
					n.Set(f.name, "set-on-new")
				} else if f.rel {
					n.Set(f.name, []string{"set", "on", "new"})
				} else {
					n.Set(f.name, randValue(c.r, f.code, f.nullable, false))
				}
			}
			n.Set("id", "new-id")
			if nsr, ok := n.(*jsonapi.SoftResource); ok {
				nsr.AddAttr(jsonapi.Attr{Name: "added-to-new", Type: jsonapi.AttrTypeBool})
				if len(t.fields) > 1 {
					nsr.RemoveField(fieldOrder(t)[1])
				}
			}
			// editing the Type value obtained from the new instance or from the copy
			// (its maps are the instance's own) must not reach the source either
			for _, other := range []jsonapi.Resource{n, cpy} {
				ot := other.GetType()
				for name := range ot.Attrs {
					ot.RemoveAttr(name)
					break
				}
				for name := range ot.Rels {
					ot.RemoveRel(name)
					break
				}
				_ = ot.AddAttr(jsonapi.Attr{Name: "via-gettype", Type: jsonapi.AttrTypeInt})
			}
			if len(src.Attrs())+len(src.Rels()) != srcFields {
				key, detail = "type-shared-with-new", "editing the type of the resource returned by New() changed the source's fields"
			} else if !reflect.DeepEqual(srcBefore, readAll(t, src)) {
				key, detail = "new-not-independent", "writing to the resource returned by New() changed what is read from the source"
			}
			// a type whose fields were all removed again (empty, non-nil maps): its copy is its own
			emptied := jsonapi.Type{Name: "emptied"}
			_ = emptied.AddAttr(jsonapi.Attr{Name: "a", Type: jsonapi.AttrTypeInt})
			_ = emptied.AddRel(jsonapi.Rel{FromType: "emptied", FromName: "r", ToType: "other"})
			emptied.RemoveAttr("a")
			emptied.RemoveRel("r")
			ec := emptied.Copy()
			_ = ec.AddAttr(jsonapi.Attr{Name: "late", Type: jsonapi.AttrTypeInt})
			_ = ec.AddRel(jsonapi.Rel{FromType: "emptied", FromName: "late-rel", ToType: "other"})
			if len(emptied.Attrs) != 0 || len(emptied.Rels) != 0 {
				key, detail = "type-copy-shares-maps", "adding fields to the copy of a type without fields added them to the source"
			}
			tc := t.softType()
			tc2 := tc.Copy()
			_ = tc2.AddAttr(jsonapi.Attr{Name: "zz-added", Type: jsonapi.AttrTypeInt})
			tc2.RemoveRel("many")
			if !tc.Equal(t.softType()) {
				key, detail = "type-copy-shares-maps", ""
			}
		}
	})
	if p {
		key, detail = "copy-history-panics", fmt.Sprint(pv)
		steps = append(steps, oPanic())
	}
	ks := keysOf(kinds)
	feature := fmt.Sprintf("wrapped=%v fields=%d ops=%d kinds=%s", wrapped, len(t.fields), len(ops), strings.Join(ks, ","))
	c.count(fmt.Sprintf("wrapped=%v", wrapped))
	k := c.add("copy-history", fmt.Sprintf("wrapped=%v {%s} copy; %s", wrapped, strings.Join(sdesc, " "), strings.Join(descs, "; ")), feature, false,
		fmt.Sprintf("(run_c18 %s %s %s %s %s)", gZeroSlots(t), gList(gsets), gStr(id), gList(gops), gStrs(fieldOrder(t))),
		oL(steps), key, detail)
	k.Replay = how
}

var c18Type = typeSpec{name: "t", fields: []fieldSpec{
	{name: "s", code: 1}, {name: "n", code: 6, nullable: true}, {name: "b", code: 14}, {name: "pb", code: 14, nullable: true},
	{name: "t", code: 13}, {rel: true, name: "one", toOne: true, target: "t"}, {rel: true, name: "many", target: "t"}, {rel: true, name: "many2", target: "t"},
}}

func c18RandVal(r *rng, f fieldSpec) any {
	if f.rel {
		if f.toOne {
			return pick(r, dictIDs)
		}
		return pick(r, [][]string{{"c", "a", "b"}, {"b", "a"}, {"x"}, {}, nil, {"z", "y", "x", "w"}})
	}
	if f.code == 14 {
		b := append([]byte{}, pick(r, [][]byte{{3, 1, 2}, {9}, {}, {7, 7}})...)
		if f.nullable {
			if r.chance(1, 4) {
				return (*[]byte)(nil)
			}
			return &b
		}
		return b
	}
	return randValue(r, f.code, f.nullable, false)
}

// c18CapAlias: a slice emptied by re-slicing keeps its storage; after Copy,
// appending through one resource must not show through the other (oracle only:
// the heap model has no slice capacities).
func c18CapAlias(c *ctx, t typeSpec, wrapped bool, field string, viaNew bool) {
	var key, detail string
	f := t.field(field)
	p, pv := guard(func() {
		var full, one, two any
		if f.rel {
			full, one, two = []string{"t1", "t2", "t3"}, "copy-tag", "src-tag"
		} else {
			full, one, two = []byte("first draft"), byte('c'), byte('s')
		}
		src := buildRes(t, wrapped, []setOp{{"id", "1"}, {field, full}})
		app := func(r jsonapi.Resource, x any) {
			switch v := r.Get(field).(type) {
			case []string:
				r.Set(field, append(v, x.(string)))
			case []byte:
				r.Set(field, append(v, x.(byte)))
			}
		}
		switch v := src.Get(field).(type) {
		case []string:
			src.Set(field, v[:0])
		case []byte:
			src.Set(field, v[:0])
		}
		var other jsonapi.Resource
		if viaNew {
			other = src.(jsonapi.Copier).New()
		} else {
			other = src.(jsonapi.Copier).Copy()
		}
		app(other, one)
		before := oReadField(*f, other.Get(field))
		app(src, two)
		if after := oReadField(*f, other.Get(field)); after != before {
			key, detail = "copy-not-independent", fmt.Sprintf("%s: appending to the source's emptied slice changed the other's from %s to %s", field, before, after)
		}
	})
	if p {
		key, detail = "copy-history-panics", fmt.Sprint(pv)
	}
	how := fmt.Sprintf("emptied slice, wrapped=%v field=%s new=%v", wrapped, field, viaNew)
	k := c.add("cap-alias", how, how, false, oL(nil), oL(nil), key, detail)
	k.Replay = how
}

func runC18(c *ctx) {
	t := c18Type
	for _, wrapped := range []bool{false, true} {
		for _, field := range []string{"b", "many", "many2"} {
			if t.field(field) != nil {
				c18CapAlias(c, t, wrapped, field, false)
				c18CapAlias(c, t, wrapped, field, true)
			}
		}
	}
	n := 150
	if c.thorough() {
		n = 3000
	}
	// design-phase witness: copy, then write element 0 through the copy's Get
	for _, wrapped := range []bool{false, true} {
		c18Case(c, t, wrapped, []setOp{{"b", []byte{1, 2, 3}}, {"many", []string{"b", "a"}}}, "1",
			[]c18Op{{kind: "mut", who: true, field: "b", idx: 0, zb: 99, zs: "zz"}, {kind: "mut", who: true, field: "many", idx: 0, zb: 9, zs: "zz"},
				{kind: "sort", who: false, fs: []string{"many"}}}, "corpus F18")
		pb := []byte{5, 6}
		c18Case(c, t, wrapped, []setOp{{"pb", &pb}}, "1", []c18Op{{kind: "mut", who: false, field: "pb", idx: 1, zb: 0, zs: ""}}, "corpus F18 pointer")
	}
	for i := 0; i < n; i++ {
		wrapped := c.r.bool()
		var sets []setOp
		for _, f := range t.fields {
			if c.r.chance(3, 4) {
				sets = append(sets, setOp{f.name, c18RandVal(c.r, f)})
			}
		}
		var ops []c18Op
		for k := c.r.intn(13); k > 0; k-- {
			f := pick(c.r, t.fields)
			who := c.r.bool()
			switch c.r.intn(5) {
			case 0, 1:
				ops = append(ops, c18Op{kind: "set", who: who, field: f.name, val: c18RandVal(c.r, f)})
			case 2:
				ops = append(ops, c18Op{kind: "mut", who: who, field: pick(c.r, []string{"b", "pb", "many", "many2"}), idx: c.r.intn(3), zb: byte(100 + c.r.intn(100)), zs: pick(c.r, []string{"zz", "0", "m"})})
			case 3:
				ops = append(ops, c18Op{kind: "sort", who: who, fs: pick(c.r, [][]string{{"many"}, {"many2"}, {"many", "many2"}})})
			default:
				ops = append(ops, c18Op{kind: "setid", who: who, val: pick(c.r, dictIDs)})
			}
		}
		c18Case(c, t, wrapped, sets, pick(c.r, dictIDs), ops, "random")
	}
	// every kind holding a non-zero value: the copy reads the same as its source
	all := allKindsSpec("alltypes", "other")
	for _, wrapped := range []bool{false, true} {
		for i := 0; i < 4; i++ {
			ops := c01Ops(c.r, all, true)
			c18Case(c, all, wrapped, ops[1:], "id-all", nil, "all kinds copy")
		}
	}
	runC18Types(c)
}

func init() {
	register("C18", []string{"Model.GoTime", "Gen.TypeGo", "Model.Schema", "Model.Value", "Model.Resource", "Model.Heap", "Model.SoftRes", "Model.C14", "Model.TypeHeap", "Model.C18"}, runC18)
}
