package main

import (
	"fmt"
	"reflect"
	"sort"
	"strings"

	"github.com/mfcochauxlaberge/jsonapi"
)

type c19Op struct {
	kind string // add addown remove settype addattr addrel
	res  resSpecT
	id   string
	typ  typeSpec
	attr jsonapi.Attr
	rel  jsonapi.Rel
}

// a resource to add: its own type specification, implementation, sets
type resSpecT struct {
	t       typeSpec
	wrapped bool
	ops     []setOp
}

func (o c19Op) gallina() string {
	switch o.kind {
	case "add":
		return fmt.Sprintf("(CAdd %s %s)", gNewRes(o.res.t, o.res.wrapped), gOps(o.res.ops))
	case "addown":
		return "(CAddOwn " + gOps(o.res.ops) + ")"
	case "remove":
		return "(CRemove " + gStr(o.id) + ")"
	case "settype":
		return "(CSetType " + o.typ.gType() + ")"
	case "addattr":
		return "(CAddAttr " + gAttr(o.attr) + ")"
	default:
		return "(CAddRel " + gRel(o.rel) + ")"
	}
}

func (o c19Op) String() string {
	switch o.kind {
	case "add":
		var d []string
		for _, s := range o.res.ops {
			d = append(d, fmt.Sprintf("%s=%s", s.key, descValue(s.val)))
		}
		return fmt.Sprintf("Add(%s%v wrapped=%v {%s})", o.res.t.name, o.res.t.fieldNames(), o.res.wrapped, strings.Join(d, " "))
	case "addown":
		var d []string
		for _, s := range o.res.ops {
			d = append(d, fmt.Sprintf("%s=%s", s.key, descValue(s.val)))
		}
		return fmt.Sprintf("Add(soft resource bound to the collection's Type {%s})", strings.Join(d, " "))
	case "remove":
		return fmt.Sprintf("Remove(%q)", o.id)
	case "settype":
		return fmt.Sprintf("SetType(%s%v)", o.typ.name, o.typ.fieldNames())
	case "addattr":
		return fmt.Sprintf("AddAttr(%s %s)", o.attr.Name, jsonapi.GetAttrTypeString(o.attr.Type, o.attr.Nullable))
	default:
		return fmt.Sprintf("AddRel(%s)", descRel(o.rel))
	}
}

// reference store, written from the property text
type refItem struct {
	id   string
	vals map[string]any
	held map[string]string // field -> definition under which the element first held a value for it
}

func c19History(c *ctx, start typeSpec, ops []c19Op, how string) {
	probes := []int{-1, 0, 1, 2, 5}
	ids := []string{"1", "2", "3", "zz", ""}
	var steps []string
	var key, detail string
	var gops, descs []string
	for _, o := range ops {
		gops = append(gops, o.gallina())
		descs = append(descs, o.String())
	}
	p, pv := guard(func() {
		typ := start.softType()
		col := &jsonapi.SoftCollection{}
		col.SetType(&typ)
		var ref []refItem
		var lastSrc jsonapi.Resource
		clashed := false
		for i, o := range ops {
			switch o.kind {
			case "add", "addown":
				var src jsonapi.Resource
				if o.kind == "add" {
					src = buildRes(o.res.t, o.res.wrapped, o.res.ops)
				} else {
					// a soft resource that points at the very Type value the collection uses
					sr := &jsonapi.SoftResource{}
					sr.SetType(col.Type)
					for _, s := range o.res.ops {
						sr.Set(s.key, s.val)
					}
					src = sr
				}
				srcAttrs, srcRels := src.Attrs(), src.Rels()
				srcVals := map[string]any{}
				for k := range srcAttrs {
					srcVals[k] = src.Get(k)
				}
				for k := range srcRels {
					srcVals[k] = src.Get(k)
				}
				argBefore := oStruct(src)
				col.Add(src)
				lastSrc = src
				// Add reads its argument: the resource handed in is what it was
				if after := oStruct(src); after != argBefore && key == "" {
					key, detail = "add-changes-argument", fmt.Sprintf("step %d %s: the resource that was added is now %s, was %s", i, o, after, argBefore)
				}
				// Add extends the type with the fields it lacks and stores every value that
				// fits the (possibly older) definition the collection has for that name
				if key == "" {
					ct := col.GetType()
					stored := col.At(col.Len() - 1)
					nilish := func(v any) bool {
						if v == nil {
							return true
						}
						rv := reflect.ValueOf(v)
						return (rv.Kind() == reflect.Ptr && rv.IsNil()) || (rv.Kind() == reflect.Slice && rv.Len() == 0)
					}
					same := func(x, y any) bool { return sameValue(x, y) || (nilish(x) && nilish(y)) }
					for f, a := range srcAttrs {
						ca, isA := ct.Attrs[f]
						_, isR := ct.Rels[f]
						switch {
						case !isA && !isR:
							key, detail = "add-did-not-extend-type", fmt.Sprintf("step %d %s: attribute %s is not in the collection's type", i, o, f)
						case isA && !isR && ca.Type == a.Type && ca.Nullable == a.Nullable && stored != nil:
							if got := stored.Get(f); !same(got, srcVals[f]) {
								key, detail = "add-lost-value", fmt.Sprintf("step %d %s: %s was %s, the stored element reads %s", i, o, f, descValue(srcVals[f]), descValue(got))
							}
						}
					}
					for f, r := range srcRels {
						cr, isR := ct.Rels[f]
						_, isA := ct.Attrs[f]
						switch {
						case !isA && !isR:
							key, detail = "add-did-not-extend-type", fmt.Sprintf("step %d %s: relationship %s is not in the collection's type", i, o, f)
						case isR && !isA && cr.ToOne == r.ToOne && stored != nil:
							if got := stored.Get(f); !same(got, srcVals[f]) {
								key, detail = "add-lost-value", fmt.Sprintf("step %d %s: %s was %s, the stored element reads %s", i, o, f, descValue(srcVals[f]), descValue(got))
							}
						}
					}
				}
				it := refItem{id: src.Get("id").(string), vals: map[string]any{}}
				for k := range src.Attrs() {
					it.vals[k] = src.Get(k)
				}
				for k := range src.Rels() {
					it.vals[k] = src.Get(k)
				}
				ref = append(ref, it)
			case "remove":
				for j := range ref {
					if ref[j].id == o.id {
						ref = append(ref[:j:j], ref[j+1:]...)
						break
					}
				}
				col.Remove(o.id)
			case "settype":
				nt := o.typ.softType()
				col.SetType(&nt)
			case "addattr":
				_ = col.AddAttr(o.attr)
			case "addrel":
				_ = col.AddRel(o.rel)
			}
			// ---- observe everything
			var items, ats, ress []string
			for j := 0; j < col.Len(); j++ {
				items = append(items, oFullResource(col.At(j)))
			}
			for _, pi := range probes {
				r := col.At(pi)
				if r == nil || reflect.ValueOf(r).IsNil() {
					ats = append(ats, oC("nil"))
				} else {
					ats = append(ats, oC("some", oS(r.Get("id").(string))))
				}
			}
			for _, id := range ids {
				r := col.Resource(id, nil)
				if r == nil || reflect.ValueOf(r).IsNil() {
					ress = append(ress, oC("nil"))
				} else {
					ress = append(ress, oC("some", oS(r.Get("id").(string))))
				}
			}
			steps = append(steps, oL([]string{oZ(col.Len()), oL(items), oL(ats), oL(ress)}))
			if key != "" {
				continue
			}
			// ---- the property
			if col.Len() != len(ref) {
				key, detail = "len-differs-from-list", fmt.Sprintf("step %d %s: Len %d, list has %d", i, o, col.Len(), len(ref))
				continue
			}
			// Resource(id) agrees with the list: present iff some element has that ID
			for _, id := range ids {
				inList := false
				for j := range ref {
					if ref[j].id == id {
						inList = true
						break
					}
				}
				r := col.Resource(id, nil)
				got := !(r == nil || reflect.ValueOf(r).IsNil())
				if got != inList || (got && r.Get("id") != id) {
					key, detail = "resource-lookup-differs-from-list", fmt.Sprintf("step %d %s: Resource(%q) found=%v, the list holds it=%v", i, o, id, got, inList)
				}
			}
			// Resource(id) and At(i) hand out the stored element itself: a Set through one shows through the other
			if key == "" && col.Len() > 0 {
				last := col.At(col.Len() - 1)
				if lid, _ := last.Get("id").(string); lid != "" {
					first := -1
					for j := range ref {
						if ref[j].id == lid {
							first = j
							break
						}
					}
					if via := col.Resource(lid, nil); first >= 0 && via != nil && !reflect.ValueOf(via).IsNil() {
						via.Set("id", lid+"-renamed")
						if got := col.At(first).Get("id"); got != lid+"-renamed" {
							key, detail = "resource-lookup-differs-from-list", fmt.Sprintf("step %d %s: an ID set through Resource(%q) does not show through At(%d) (%q)", i, o, lid, first, got)
						}
						col.At(first).Set("id", lid)
					}
				}
			}
			if key != "" {
				continue
			}
			ct := col.GetType()
			want := typeFieldNames(ct)
			for j := range ref {
				r := col.At(j)
				if r.Get("id") != ref[j].id {
					key, detail = "order-differs-from-list", fmt.Sprintf("step %d %s: position %d holds %q, list has %q", i, o, j, r.Get("id"), ref[j].id)
					break
				}
				got := typeFieldNames(jsonapi.Type{Attrs: r.Attrs(), Rels: r.Rels()})
				if !reflect.DeepEqual(got, want) && len(got)+len(want) > 0 {
					key, detail = "element-fields-not-collection-fields", fmt.Sprintf("step %d %s: position %d exposes %v, collection has %v", i, o, j, got, want)
					break
				}
			}
			// a field the element had no value for when it was stored (or that
			// left the type since: every element is read after every step, and
			// reading drops the values of fields that are gone) reads as zero
			wasClashed := clashed
			for f := range ct.Attrs {
				if _, isR := ct.Rels[f]; isR {
					clashed = true // one name for an attribute and a relationship: from here on stored values may be of either
				}
			}
			// Add extends the type only with fields it lacks: it never gives one name to two fields
			if clashed && !wasClashed && (o.kind == "add" || o.kind == "addown") && key == "" {
				key, detail = "add-created-name-clash", fmt.Sprintf("step %d %s: the collection's type now has an attribute and a relationship of the same name", i, o)
			}
			sig := map[string]string{}
			for f, ca := range ct.Attrs {
				sig[f] = fmt.Sprintf("attr %d %v", ca.Type, ca.Nullable)
			}
			for f, cr := range ct.Rels {
				if _, isA := ct.Attrs[f]; !isA {
					sig[f] = fmt.Sprintf("rel %v", cr.ToOne)
				}
			}
			for j := range ref {
				if clashed {
					break
				}
				if ref[j].held == nil {
					ref[j].held = map[string]string{}
				}
				for f := range ref[j].vals {
					if _, ok := sig[f]; !ok {
						delete(ref[j].vals, f)
					}
				}
				for f := range ref[j].held {
					if _, ok := sig[f]; !ok {
						delete(ref[j].held, f) // the field left the type: reading dropped its value
					}
				}
				r := col.At(j)
				for f, s := range sig {
					if _, ok := ref[j].held[f]; !ok {
						ref[j].held[f] = s
					}
					if _, had := ref[j].vals[f]; had || key != "" {
						continue
					}
					var want any
					if ca, isA := ct.Attrs[f]; isA {
						want = jsonapi.GetZeroValue(ca.Type, ca.Nullable)
					} else if ct.Rels[f].ToOne {
						want = ""
					} else {
						want = []string{}
					}
					if !sameValue(r.Get(f), want) {
						if ref[j].held[f] != s {
							key, detail = "stale-value-after-kind-change", fmt.Sprintf("step %d %s: element %d reads %s for %s (now %s; it was filled when the field was %s)", i, o, j, descValue(r.Get(f)), f, s, ref[j].held[f])
						} else {
							key, detail = "absent-field-not-zero", fmt.Sprintf("step %d %s: element %d reads %s for %s it never had a value for", i, o, j, descValue(r.Get(f)), f)
						}
					}
				}
			}
			for _, pi := range probes {
				r := col.At(pi)
				isNil := r == nil || reflect.ValueOf(r).IsNil()
				if (pi < 0 || pi >= len(ref)) != isNil {
					key, detail = "at-out-of-range", fmt.Sprintf("step %d: At(%d) with %d elements", i, pi, len(ref))
				}
				if (pi < 0 || pi >= len(ref)) && r != nil {
					// a nil pointer inside a non-nil interface is not nil for the caller
					key, detail = "at-out-of-range", fmt.Sprintf("step %d: At(%d) with %d elements is a non-nil interface holding a nil pointer", i, pi, len(ref))
				}
			}
			// the snapshot does not follow later Set calls on the resource that was added
			if (o.kind == "add" || o.kind == "addown") && lastSrc != nil && key == "" {
				stored := col.At(col.Len() - 1)
				before := map[string]any{}
				beforeText := map[string]string{}
				for _, f := range want {
					before[f] = stored.Get(f)
					beforeText[f] = descValue(stored.Get(f)) // pointers are followed now: the same pointer may hold another value later
				}
				for _, f := range o.res.t.fields {
					if f.rel {
						if f.toOne {
							lastSrc.Set(f.name, "changed-after-add")
						} else {
							lastSrc.Set(f.name, []string{"changed", "after", "add"})
						}
					} else {
						lastSrc.Set(f.name, randValue(c.r, f.code, f.nullable, false))
					}
				}
				lastSrc.Set("id", "changed-id")
				for _, f := range want {
					if !sameValue(before[f], stored.Get(f)) || descValue(stored.Get(f)) != beforeText[f] {
						key, detail = "snapshot-follows-source", fmt.Sprintf("step %d %s: %s was %s, now %s", i, o, f, beforeText[f], descValue(stored.Get(f)))
					}
				}
				if stored.Get("id") != ref[len(ref)-1].id {
					key, detail = "snapshot-follows-source", "id"
				}
				// well-typed values were stored, fields added later read zero
				for _, f := range want {
					ca, isAttr := ct.Attrs[f]
					v, had := ref[len(ref)-1].vals[f]
					if !isAttr {
						continue
					}
					sf := o.res.t.field(f)
					wellTyped := had && sf != nil && !sf.rel && sf.code == ca.Type && sf.nullable == ca.Nullable
					if wellTyped && !sameValue(before[f], v) {
						key, detail = "snapshot-value-differs", fmt.Sprintf("step %d %s: %s stored %s, resource had %s", i, o, f, descValue(before[f]), descValue(v))
					}
					if !had && !sameValue(before[f], jsonapi.GetZeroValue(ca.Type, ca.Nullable)) {
						key, detail = "missing-field-not-zero", fmt.Sprintf("step %d %s: %s = %s", i, o, f, descValue(before[f]))
					}
				}
			}
		}
	})
	if p {
		steps = append(steps, oPanic())
		key, detail = "collection-panics", fmt.Sprint(pv)
	}
	kinds := map[string]bool{}
	for _, o := range ops {
		kinds[o.kind] = true
	}
	feature := fmt.Sprintf("len=%d kinds=%s", min(len(ops), 12), strings.Join(keysOf(kinds), ","))
	var gp, gi []string
	for _, pi := range probes {
		gp = append(gp, gZ(pi))
	}
	for _, id := range ids {
		gi = append(gi, gStr(id))
	}
	c.count(fmt.Sprintf("ops=%d", min(len(ops)/4*4, 28)))
	k := c.add("coll-history", fmt.Sprintf("start %s%v: %s", start.name, start.fieldNames(), strings.Join(descs, "; ")), feature, len(ops) == 0,
		fmt.Sprintf("(run_c19 %s %s %s %s)", start.gType(), gList(gops), gList(gp), gList(gi)), oL(steps), key, detail)
	k.Replay = how
	_ = sort.Strings
}

// c19Untargeted: the base type plus relationships that name no target type (soft only).
func c19Untargeted() typeSpec {
	base, _, _, _ := c19Types()
	return typeSpec{name: "t", fields: append(append([]fieldSpec{}, base.fields...),
		fieldSpec{rel: true, name: "author", toOne: true, target: ""}, fieldSpec{rel: true, name: "tags", target: ""})}
}

func c19Types() (base, narrow, wide, conflict typeSpec) {
	base = typeSpec{name: "t", fields: []fieldSpec{{name: "a", code: 1}, {name: "n", code: 3, nullable: true}, {name: "b", code: 14},
		{rel: true, name: "one", toOne: true, target: "t"}, {rel: true, name: "many", target: "t"}}}
	narrow = typeSpec{name: "t", fields: []fieldSpec{{name: "a", code: 1}}}
	wide = typeSpec{name: "t", fields: append(append([]fieldSpec{}, base.fields...), fieldSpec{name: "extra", code: 12}, fieldSpec{rel: true, name: "more", target: "u"})}
	conflict = typeSpec{name: "t", fields: []fieldSpec{{name: "a", code: 2}, {name: "n", code: 3}, {rel: true, name: "one", toOne: false, target: "t"}, {name: "many", code: 1}}}
	return
}

func c19RandOp(r *rng) c19Op {
	base, narrow, wide, conflict := c19Types()
	switch r.intn(10) {
	case 0, 1, 2, 3:
		t := pick(r, []typeSpec{base, base, narrow, wide, conflict})
		rs := resSpecT{t: t, wrapped: r.bool(), ops: c01Ops(r, t, false)}
		if r.chance(1, 6) {
			rs.t, rs.wrapped = c19Untargeted(), false
			rs.ops = c01Ops(r, rs.t, false)
		}
		rs.ops[0] = setOp{"id", pick(r, []string{"1", "2", "3", "1", ""})}
		return c19Op{kind: "add", res: rs}
	case 4:
		rs := resSpecT{t: base, ops: c01Ops(r, base, false)}
		rs.ops[0] = setOp{"id", pick(r, []string{"1", "2", "3", "1", ""})}
		return c19Op{kind: "addown", res: rs}
	case 5:
		return c19Op{kind: "remove", id: pick(r, []string{"1", "2", "3", "zz", ""})}
	case 6:
		return c19Op{kind: "settype", typ: pick(r, []typeSpec{base, narrow, wide, {name: "other"}})}
	case 7, 8:
		return c19Op{kind: "addattr", attr: jsonapi.Attr{Name: pick(r, []string{"x", "a", "late", "one", ""}), Type: pick(r, []int{1, 4, 12, 99}), Nullable: r.bool()}}
	default:
		return c19Op{kind: "addrel", rel: jsonapi.Rel{FromType: "t", FromName: pick(r, []string{"r", "a", "many", "newrel"}), ToOne: r.bool(), ToType: pick(r, []string{"t", ""})}}
	}
}

func runC19(c *ctx) {
	base, _, _, _ := c19Types()
	n := 200
	if c.thorough() {
		n = 4000
	}
	// corpus: F19a
	c19History(c, base, []c19Op{
		{kind: "add", res: resSpecT{t: base, ops: []setOp{{"id", "1"}, {"a", "x"}}}},
		{kind: "settype", typ: typeSpec{name: "t", fields: []fieldSpec{{name: "a", code: 1}}}},
		{kind: "addattr", attr: jsonapi.Attr{Name: "late", Type: 2}},
	}, "corpus F19a")
	// corpus: a field that keeps its name but changes definition (recorded finding)
	c19History(c, base, []c19Op{
		{kind: "add", res: resSpecT{t: base, ops: []setOp{{"id", "1"}, {"a", "x"}}}},
		{kind: "settype", typ: typeSpec{name: "other"}},
		{kind: "addattr", attr: jsonapi.Attr{Name: "one", Type: 4}},
		{kind: "settype", typ: base},
	}, "corpus kind change")
	// a history nobody watches: the type is replaced and restored without a read in between;
	// what the replaced type did not have is gone (oracle only: the model follows a harness that
	// reads every element after every step)
	{
		var key, detail string
		p, pv := guard(func() {
			tb, tn := base.softType(), typeSpec{name: "t", fields: []fieldSpec{{name: "a", code: 1}}}.softType()
			col := &jsonapi.SoftCollection{}
			col.SetType(&tb)
			col.Add(buildRes(base, false, []setOp{{"id", "1"}, {"a", "x"}, {"n", ptrTo(int8(7))}, {"b", []byte{1}}, {"one", "o1"}, {"many", []string{"m1"}}}))
			col.SetType(&tn)
			tb2 := base.softType()
			col.SetType(&tb2)
			fresh := base.newSoft()
			for _, f := range base.fields {
				if f.name == "a" {
					continue
				}
				if got := col.At(0).Get(f.name); !sameValue(got, fresh.Get(f.name)) {
					key, detail = "absent-field-not-zero", fmt.Sprintf("SetType to a type without %s and back, nothing read in between: %s reads %s", f.name, f.name, descValue(got))
				}
			}
			if col.At(0).Get("a") != "x" {
				key, detail = "add-lost-value", "a field both types have lost its value over SetType, SetType"
			}
		})
		if p {
			key, detail = "collection-history-panics", fmt.Sprint(pv)
		}
		k := c.add("quiet-history", "SetType, SetType back without a read", "quiet-history", false, oL(nil), oL(nil), key, detail)
		k.Replay = "quiet-history"
	}
	// corpus: a wider resource whose extra relationships name no target type
	for _, start := range []typeSpec{{name: "t", fields: []fieldSpec{{name: "a", code: 1}}}, base} {
		c19History(c, start, []c19Op{
			{kind: "add", res: resSpecT{t: typeSpec{name: "t", fields: []fieldSpec{{name: "a", code: 1}}}, ops: []setOp{{"id", "1"}, {"a", "first"}}}},
			{kind: "add", res: resSpecT{t: c19Untargeted(), ops: []setOp{{"id", "2"}, {"a", "second"}, {"author", "u1"}, {"tags", []string{"t1", "t2"}}}}},
			{kind: "add", res: resSpecT{t: c19Untargeted(), ops: []setOp{{"id", "3"}, {"tags", []string{}}}}},
		}, "corpus untargeted relationships")
	}
	for i := 0; i < n; i++ {
		var ops []c19Op
		for k := c.r.intn(15); k > 0; k-- {
			ops = append(ops, c19RandOp(c.r))
		}
		c19History(c, base, ops, "random")
	}
}

func init() {
	register("C19", []string{"Model.GoTime", "Gen.TypeGo", "Model.Schema", "Model.Value", "Model.SoftRes", "Model.Wrapper", "Model.Resource", "Model.SoftColl", "Model.C17", "Model.C19"}, runC19)
}
