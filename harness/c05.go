package main

import (
	"fmt"
	"net/http"
	"net/http/httptest"
	"reflect"
	"strings"

	"github.com/mfcochauxlaberge/jsonapi"
)

// onSchema checks a returned resource against the schema (property text).
func onSchema(schema *jsonapi.Schema, r jsonapi.Resource) string {
	if r == nil || (reflect.ValueOf(r).Kind() == reflect.Ptr && reflect.ValueOf(r).IsNil()) {
		return "nil resource"
	}
	tn := r.GetType().Name
	stp := typeByName(schema, tn) // a walk over schema.Types, not the library's own lookup
	if tn == "" || stp == nil {
		return fmt.Sprintf("type %q is not in the schema", tn)
	}
	st := *stp
	for name, a := range r.Attrs() {
		sa, ok := st.Attrs[name]
		if !ok || sa != a {
			return "attribute " + name + " is not the schema's"
		}
		v := r.Get(name)
		if v == nil {
			if !a.Nullable {
				return "attribute " + name + " is nil but not nullable"
			}
			continue
		}
		if reflect.TypeOf(v) != goTypeOf(a.Type, a.Nullable) {
			return fmt.Sprintf("attribute %s holds a %T, schema says %s", name, v, jsonapi.GetAttrTypeString(a.Type, a.Nullable))
		}
	}
	for name, rel := range r.Rels() {
		if sr, ok := st.Rels[name]; !ok || sr != rel {
			return "relationship " + name + " is not the schema's"
		}
		v := r.Get(name)
		if rel.ToOne {
			if _, ok := v.(string); !ok {
				return fmt.Sprintf("to-one %s holds a %T", name, v)
			}
		} else if _, ok := v.([]string); !ok {
			return fmt.Sprintf("to-many %s holds a %T", name, v)
		}
	}
	return ""
}

type c05Result struct {
	obs      string
	panicked bool
	panicVal any
	both     bool // result and error, or neither
	offSch   string
}

func isNilIface(v any) bool {
	if v == nil {
		return true
	}
	rv := reflect.ValueOf(v)
	switch rv.Kind() {
	case reflect.Ptr, reflect.Slice, reflect.Map, reflect.Interface:
		return rv.IsNil()
	}
	return false
}

func c05Call(schema *jsonapi.Schema, f func() (any, error), observe func(any) (string, string)) c05Result {
	var res any
	var err error
	p, pv := guard(func() { res, err = f() })
	if p {
		return c05Result{obs: oPanic(), panicked: true, panicVal: pv}
	}
	if err != nil {
		r := c05Result{obs: oC("fail")}
		// a Resource or Collection is returned as an interface: with an error it must be
		// the nil interface, not a non-nil one holding a nil pointer
		if rv := reflect.ValueOf(res); res != nil && rv.Kind() == reflect.Ptr && rv.IsNil() {
			switch res.(type) {
			case *jsonapi.Document, *jsonapi.SoftResource, *jsonapi.Request: // returned as pointers
			default:
				r.both = true
			}
		}
		if !isNilIface(res) {
			// Identifier / Identifiers are returned by value: zero value expected
			switch x := res.(type) {
			case jsonapi.Identifier:
				r.both = x != (jsonapi.Identifier{})
			case jsonapi.Identifiers:
				r.both = len(x) != 0
			default:
				r.both = true
			}
		}
		return r
	}
	if isNilIface(res) {
		switch res.(type) {
		case jsonapi.Identifiers: // returned by value: an empty list is a result
		default:
			return c05Result{obs: oC("neither"), both: true}
		}
	}
	var o, off string
	if po, pvo := guard(func() { o, off = observe(res) }); po {
		// the result cannot even be read (a nil resource in a list, ...)
		return c05Result{obs: oOk(oC("unreadable")), offSch: fmt.Sprintf("reading the result panics: %v", pvo)}
	}
	return c05Result{obs: oOk(o), offSch: off}
}

func c05Payload(c *ctx, sc schemaSpec, payload string, how string) {
	c05PayloadOn(c, sc, sc.build(), payload, how)
}

// editedSchema builds sc's schema plus a type "gone", uses it through every
// lookup the library offers (whatever caches exist are now warm), removes
// "gone" again and adds a type "late".  The returned spec describes the schema
// as it is afterwards.
// variant 0: remove then add (same number of types), 1: remove only, 2: add then remove.
func editedSchema(sc schemaSpec, variant int) (*jsonapi.Schema, schemaSpec) {
	schema := sc.build()
	gone := typeSpec{name: "gone", fields: []fieldSpec{{name: "title", code: 1}}}
	late := typeSpec{name: "late", fields: []fieldSpec{{name: "a", code: 1}}}
	holder := typeSpec{name: "holder", fields: []fieldSpec{{rel: true, name: "g", toOne: true, target: "gone"}}}
	_ = schema.AddType(gone.softType())
	_ = schema.AddType(holder.softType())
	guard(func() {
		schema.HasType("gone")
		schema.GetType("gone")
		schema.Rels()
		schema.Check()
		_, _ = jsonapi.NewURLFromRaw(schema, "/gone?include=x")
		_, _ = jsonapi.NewURLFromRaw(schema, "/holder/1/g")
		_, _ = jsonapi.UnmarshalIdentifier([]byte(`{"id":"1","type":"gone"}`), schema)
		_, _ = jsonapi.UnmarshalResource([]byte(`{"id":"1","type":"gone","attributes":{"title":"x"}}`), schema)
		_, _ = jsonapi.UnmarshalDocument([]byte(`{"data":[{"id":"1","type":"gone"},{"id":"2","type":"holder"}]}`), schema)
	})
	out := schemaSpec{types: append(append([]typeSpec{}, sc.types...), holder), wrapped: map[string]bool{}}
	switch variant {
	case 0:
		schema.RemoveType("gone")
		_ = schema.AddType(late.softType())
		out.types = append(out.types, late)
	case 1:
		schema.RemoveType("gone")
	default:
		_ = schema.AddType(late.softType())
		schema.RemoveType("gone")
		out.types = append(out.types, late)
	}
	for k, v := range sc.wrapped {
		out.wrapped[k] = v
	}
	return schema, out
}

func c05PayloadOn(c *ctx, sc schemaSpec, schema *jsonapi.Schema, payload string, how string) {
	tree := parseJSON([]byte(payload))
	env := newStdEnv()
	env.addTree(tree)
	data := []byte(payload)
	obsRes := func(v any) (string, string) {
		r := v.(jsonapi.Resource)
		return oFullResource(r), onSchema(schema, r)
	}
	results := []c05Result{
		c05Call(schema, func() (any, error) { return jsonapi.UnmarshalDocument(data, schema) }, func(v any) (string, string) {
			d := v.(*jsonapi.Document)
			off := ""
			for _, r := range docResources(d) {
				if m := onSchema(schema, r); m != "" {
					off = m
				}
			}
			d.Meta = nil // map[string]any re-formats numbers and nested keys: not part of this observation
			for i := range d.Errors {
				d.Errors[i].Meta, d.Errors[i].Source = nil, nil
			}
			return oUDoc(d), off
		}),
		c05Call(schema, func() (any, error) { return jsonapi.UnmarshalResource(data, schema) }, obsRes),
		c05Call(schema, func() (any, error) { return jsonapi.UnmarshalPartialResource(data, schema) }, func(v any) (string, string) {
			p := v.(*jsonapi.SoftResource)
			off := ""
			st := typeByName(schema, p.GetType().Name)
			if st == nil {
				off = "partial resource of a type that is not in the schema"
			} else {
				for name, a := range p.Attrs() {
					sa, ok := st.Attrs[name]
					if !ok || sa != a {
						off = "partial resource: attribute " + name + " is not the schema's"
						continue
					}
					if val := p.Get(name); val == nil {
						if !sa.Nullable {
							off = "partial resource: attribute " + name + " is nil but not nullable"
						}
					} else if reflect.TypeOf(val) != goTypeOf(sa.Type, sa.Nullable) {
						off = fmt.Sprintf("partial resource: attribute %s holds a %T, schema says %s", name, val, jsonapi.GetAttrTypeString(sa.Type, sa.Nullable))
					}
				}
				for name, r := range p.Rels() {
					if sr, ok := st.Rels[name]; !ok || sr != r {
						off = "partial resource: relationship " + name + " is not the schema's"
					}
				}
			}
			return oPartial(p), off
		}),
		c05Call(schema, func() (any, error) { return jsonapi.UnmarshalCollection(data, schema) }, func(v any) (string, string) {
			col := v.(jsonapi.Collection)
			var it []string
			off := ""
			for i := 0; i < col.Len(); i++ {
				it = append(it, oFullResource(col.At(i)))
				if m := onSchema(schema, col.At(i)); m != "" {
					off = m
				}
			}
			return oL(it), off
		}),
		c05Call(schema, func() (any, error) { return jsonapi.UnmarshalIdentifier(data, schema) }, func(v any) (string, string) {
			i := v.(jsonapi.Identifier)
			off := ""
			if typeByName(schema, i.Type) == nil {
				off = "identifier of a type that is not in the schema"
			}
			return oL([]string{oS(i.ID), oS(i.Type)}), off
		}),
		c05Call(schema, func() (any, error) { return jsonapi.UnmarshalIdentifiers(data, schema) }, func(v any) (string, string) {
			var it []string
			off := ""
			for _, i := range v.(jsonapi.Identifiers) {
				it = append(it, oL([]string{oS(i.ID), oS(i.Type)}))
				if typeByName(schema, i.Type) == nil {
					off = "identifier of a type that is not in the schema"
				}
			}
			return oL(it), off
		}),
	}
	// NewRequest with this body: collection URL for the three methods, resource URL for PATCH
	for _, mu := range [][2]string{{http.MethodPost, "/alltypes"}, {http.MethodPatch, "/alltypes"}, {http.MethodGet, "/alltypes"}, {http.MethodPatch, "/alltypes/x1"}} {
		m, target := mu[0], mu[1]
		r := c05Call(schema, func() (any, error) {
			return jsonapi.NewRequest(httptest.NewRequest(m, target, strings.NewReader(payload)), schema)
		}, func(v any) (string, string) {
			req := v.(*jsonapi.Request)
			off := ""
			if req.Doc != nil {
				for _, r := range docResources(req.Doc) {
					if mm := onSchema(schema, r); mm != "" {
						off = mm
					}
				}
			}
			return oC("request", oB(req.Doc != nil)), off
		})
		results = append(results, r)
	}
	names := []string{"UnmarshalDocument", "UnmarshalResource", "UnmarshalPartialResource", "UnmarshalCollection", "UnmarshalIdentifier", "UnmarshalIdentifiers", "NewRequest(POST)", "NewRequest(PATCH)", "NewRequest(GET)", "NewRequest(PATCH /alltypes/x1)"}
	var key, detail string
	var obsParts []string
	npanic, nok := 0, 0
	for i, r := range results {
		if r.obs != "" {
			// the model does not distinguish which failing member is met first (Go map order):
			// err and panic are one class in the observation
			if r.panicked {
				obsParts = append(obsParts, oC("fail"))
			} else {
				obsParts = append(obsParts, r.obs)
			}
		}
		if r.panicked {
			npanic++
			if key == "" || key == "bytes-attr-invalid-panics" {
				k := "unmarshal-panics"
				if strings.Contains(fmt.Sprint(r.panicVal), "base64") || strings.Contains(fmt.Sprint(r.panicVal), "cannot unmarshal") {
					// the panic(err) of the bytes branch of Attr.UnmarshalToType
					k = "bytes-attr-invalid-panics"
				}
				if key == "" || k != "bytes-attr-invalid-panics" {
					key, detail = k, fmt.Sprintf("%s: %v", names[i], r.panicVal)
				}
			}
		} else if r.both && (key == "" || key == "bytes-attr-invalid-panics") {
			key, detail = "result-and-error", names[i]
		} else if r.offSch != "" && (key == "" || key == "bytes-attr-invalid-panics") {
			key, detail = "off-schema-result", names[i]+": "+r.offSch
		}
		if strings.HasPrefix(r.obs, "(OC \"ok\"") {
			nok++
		}
	}
	// what UnmarshalResource returned is the caller's: editing the structure it reports
	// changes neither the schema nor what the next call returns
	if key == "" && strings.HasPrefix(results[1].obs, "(OC \"ok\"") {
		if p, pv := guard(func() {
			r, err := jsonapi.UnmarshalResource(data, schema)
			if err != nil {
				return
			}
			if _, isWrapper := r.(*jsonapi.Wrapper); !isWrapper {
				return // a soft resource's type shares its maps with the schema's by design
			}
			rt := r.GetType()
			for n := range rt.Attrs {
				rt.RemoveAttr(n)
			}
			for n := range rt.Rels {
				rt.RemoveRel(n)
			}
			_ = rt.AddAttr(jsonapi.Attr{Name: "added-to-the-result", Type: jsonapi.AttrTypeInt})
			am, rm := r.Attrs(), r.Rels()
			for n := range am {
				delete(am, n)
			}
			for n := range rm {
				delete(rm, n)
			}
			again := c05Call(schema, func() (any, error) { return jsonapi.UnmarshalResource(data, schema) }, obsRes)
			if again.panicked || again.obs != results[1].obs || again.offSch != "" {
				key, detail = "result-shares-schema", fmt.Sprintf("after the structure reported by one result was edited, UnmarshalResource of the same payload gives %s (%v %s)", again.obs, again.panicVal, again.offSch)
			}
		}); p {
			key, detail = "result-shares-schema", fmt.Sprint(pv)
		}
	}
	c.count(fmt.Sprintf("valid-json=%v", tree != nil))
	c.count("how:" + strings.SplitN(how, "+", 2)[0])
	feature := fmt.Sprintf("%s json=%v ok=%d panic=%d", strings.SplitN(how, "+", 2)[0], tree != nil, nok, npanic)
	if tree != nil && dupArrayOfObjects(tree) {
		// one member given twice (names compared as encoding/json does) with arrays of objects:
		// the decoder reuses the first array's elements for the second, so members absent from
		// the second copy keep the first copy's values - a quirk of the standard library that the
		// model does not carry; such payloads are judged by the oracle alone
		k := c.add("bytes", payload, feature+" repeated-array-member", false, oL(nil), oL(nil), key, detail)
		k.Replay = how
		return
	}
	if tree == nil {
		// not JSON: every entry point must fail before any modelled logic
		for i, r := range results[:6] {
			if !r.panicked && strings.HasPrefix(r.obs, "(OC \"ok\"") && key == "" {
				key, detail = "invalid-json-accepted", names[i]
			}
		}
		k := c.add("bytes", payload, feature, false, oL(nil), oL(nil), key, detail)
		k.Replay = how
		return
	}
	k := c.add("payload", payload, feature, false,
		fmt.Sprintf("(run_c05 %s %s %s)", env.gallina(), sc.gallina(), tree.gallina()), oL(obsParts), key, detail)
	k.Replay = how
}

// dupArrayOfObjects reports whether some object of the tree has two members whose names
// encoding/json would match to one field and whose values are both arrays holding an object.
func dupArrayOfObjects(n *jnode) bool {
	if n == nil {
		return false
	}
	holdsObj := func(v *jnode) bool {
		if v == nil || v.kind != "arr" {
			return false
		}
		for _, x := range v.arr {
			if x != nil && x.kind == "obj" {
				return true
			}
		}
		return false
	}
	if n.kind == "obj" {
		for i := range n.keys {
			for j := i + 1; j < len(n.keys); j++ {
				if strings.EqualFold(n.keys[i], n.keys[j]) && holdsObj(n.vals[i]) && holdsObj(n.vals[j]) {
					return true
				}
			}
		}
		for _, v := range n.vals {
			if dupArrayOfObjects(v) {
				return true
			}
		}
	}
	for _, v := range n.arr {
		if dupArrayOfObjects(v) {
			return true
		}
	}
	return false
}

func c05BigBody(c *ctx, sc schemaSpec, body string) {
	schema := sc.build()
	var key, detail string
	for _, mu := range [][2]string{{http.MethodPost, "/alltypes"}, {http.MethodPatch, "/alltypes/x1"}} {
		r := c05Call(schema, func() (any, error) {
			return jsonapi.NewRequest(httptest.NewRequest(mu[0], mu[1], strings.NewReader(body)), schema)
		}, func(v any) (string, string) {
			req := v.(*jsonapi.Request)
			off := ""
			if req.Doc != nil {
				for _, r := range docResources(req.Doc) {
					if mm := onSchema(schema, r); mm != "" {
						off = mm
					}
				}
			}
			return oC("request"), off
		})
		switch {
		case key != "":
		case r.panicked:
			key, detail = "unmarshal-panics", fmt.Sprintf("NewRequest(%s %s): %v", mu[0], mu[1], r.panicVal)
		case r.both:
			key, detail = "result-and-error", fmt.Sprintf("NewRequest(%s %s) with a %d-byte body: %s", mu[0], mu[1], len(body), r.obs)
		case r.offSch != "":
			key, detail = "off-schema-result", r.offSch
		}
	}
	c.count("how:big-body")
	k := c.add("bytes", fmt.Sprintf("%.60s... (%d bytes)", body, len(body)), "big-body", false, oL(nil), oL(nil), key, detail)
	k.Replay = "big-body"
}

// payloads naming a type that was removed from the schema / added to it after
// the schema had already been used
func runC05Edited(c *ctx) {
	d := randDoc(c.r)
	for _, tn := range []string{"gone", "late", "holder", "other"} {
		for _, p := range []string{
			`{"id":"1","type":"` + tn + `"}`,
			`{"data":{"id":"1","type":"` + tn + `"}}`,
			`{"data":[{"id":"1","type":"other"},{"id":"2","type":"` + tn + `"}]}`,
			`[{"id":"1","type":"` + tn + `"},{"id":"2","type":"other"}]`,
			`{"data":{"id":"1","type":"` + tn + `","attributes":{"title":"x","a":"y"}}}`,
			`{"id":"1","type":"` + tn + `","attributes":{"a":"y"}}`,
			`{"data":null,"included":[{"id":"1","type":"` + tn + `"}]}`,
		} {
			for v := 0; v < 3; v++ {
				schema, sc2 := editedSchema(d.sc, v)
				c05PayloadOn(c, sc2, schema, p, "schema-edited "+tn)
			}
		}
	}
}

func runC05(c *ctx) {
	runC05Edited(c)
	n := 300
	if c.thorough() {
		n = 8000
	}
	// valid documents, then mutated member by member
	for i := 0; i < n; i++ {
		d := randDoc(c.r)
		doc, u := d.build()
		out, err := jsonapi.MarshalDocument(doc, u)
		if err != nil {
			continue
		}
		tree := parseJSON(out)
		how := "document"
		for k := c.r.intn(3); k > 0; k-- {
			how += "+" + mutatePayload(c.r, tree)
		}
		c05Payload(c, d.sc, tree.text(), how)
	}
	// resource payloads (also fed to the document entry points)
	for i := 0; i < n; i++ {
		sc, tn := payloadSchema(c.r)
		p := genResourcePayload(c.r, sc, tn)
		how := "resource"
		for k := c.r.intn(3); k > 0; k-- {
			how += "+" + mutatePayload(c.r, p)
		}
		var text string
		switch c.r.intn(4) {
		case 0:
			text = jObj().set("data", p).text()
			how = "wrapped-" + how
		case 1:
			text = jArr(p, p.clone()).text()
			how = "array-" + how
		default:
			text = p.text()
		}
		c05Payload(c, sc, text, how)
	}
	// every attribute and relationship of the all-kinds type given every off-kind value
	{
		sw, _ := payloadSchema(c.r)
		all := sw.spec("alltypes")
		for _, f := range all.fields {
			for _, v := range offKind {
				o := jObj().set("id", jString("1")).set("type", jString("alltypes"))
				if f.rel {
					o.set("relationships", jObj().set(f.name, jObj().set("data", v.clone())))
				} else {
					o.set("attributes", jObj().set(f.name, v.clone()))
				}
				c05Payload(c, sw, o.text(), "off-kind sweep")
			}
		}
	}
	// identifiers
	sc, _ := payloadSchema(c.r)
	for _, t := range []string{`[null]`, `null`, `[]`, `{}`, `{"id":"1","type":"other"}`, `{"id":"1","type":"zz"}`, `{"id":"","type":"other"}`, `{"ID":"1","TYPE":"other"}`,
		`[{"id":"1","type":"other"},null]`, `[{"id":"1","type":"other"},{"id":"2","type":"alltypes"}]`, `[{"id":"1","type":"other"},{"id":"2","type":"zz"}]`, `[{"id":"1","type":"other"},{"id":"2","type":""}]`, `[{"id":"1","type":"other"},{"id":"","type":"other"}]`, `[{"id":1}]`, `"x"`, `5`, `[5]`, `{"id":null,"type":null}`,
		`{"data":[null]}`, `{"data":null,"included":[null]}`, `{"data":{"id":"1","type":"other"},"included":[5]}`, `{"errors":[null,{"id":5}]}`, `{"errors":[{"links":{"a":null}}]}`,
		`{"data":{"id":"1","type":"other","attributes":{"title":"a"}},"errors":[{"status":"400","title":"Bad Request"}]}`, `{"errors":[{"status":"500"}],"data":null,"meta":{"k":1}}`,
		`{"data":[{"id":"1","type":"other"}],"errors":[]}`, `{"data":{"id":" 1 ","type":"other"}}`,
		`{"data":"x"}`, `{"data":5}`, `{"data":true}`, `{"meta":5}`, `{"data":[{"id":"1","type":"other"}],"data":null}`} {
		c05Payload(c, sc, t, "corpus")
	}
	// raw bytes: truncations of a valid document, nesting, garbage
	d := randDoc(c.r)
	doc, u := d.build()
	valid, _ := jsonapi.MarshalDocument(doc, u)
	step := 1
	if !c.thorough() && len(valid) > 300 {
		step = len(valid) / 300
	}
	for i := 0; i < len(valid); i += step {
		c05Payload(c, d.sc, string(valid[:i]), "truncated")
	}
	c05Payload(c, d.sc, strings.Repeat("[", 10001)+strings.Repeat("]", 10001), "deep-nesting")
	c05Payload(c, d.sc, strings.Repeat(`{"data":`, 3000)+"null"+strings.Repeat("}", 3000), "deep-nesting")
	c05Payload(c, d.sc, `{"data":{"id":"1","type":"alltypes","attributes":{"int":1`+strings.Repeat("0", 400)+`}}}`, "huge-number")
	// bodies above a megabyte: oracle only (result xor error, no panic, on-schema)
	for _, body := range []string{
		`{"data":{"id":"x1","type":"alltypes","attributes":{"string":"` + strings.Repeat("a", 1<<20+1) + `"}}}`,
		strings.Repeat("a", 1<<20+1),
		`{"data":{"id":"x1","type":"alltypes"},"meta":{"pad":"` + strings.Repeat(" ", 3<<20) + `"}}`,
	} {
		c05BigBody(c, d.sc, body)
	}
	for i := 0; i < n; i++ {
		b := make([]byte, c.r.intn(40))
		for j := range b {
			b[j] = pick(c.r, []byte("{}[]\":,0123456789.eE-+ntrufalsdiy \\\x00\xff\n"))
		}
		c05Payload(c, d.sc, string(b), "raw")
	}
}

func init() {
	imports := []string{"Model.GoTime", "Gen.TypeGo", "Model.Schema", "Model.Value", "Model.Json", "Model.SoftRes", "Model.Wrapper", "Model.Resource", "Model.Unmarshal", "Model.Document", "Model.C17", "Model.C01", "Model.C02", "Model.C05"}
	register("C05", imports, runC05)
}
