package main

// Documents: specification, Go construction, Gallina terms, observation.

import (
	"fmt"
	"sort"
	"strings"

	"github.com/mfcochauxlaberge/jsonapi"
)

type resSpec struct {
	tn      string
	wrapped bool
	ops     []setOp
}

type errSpec struct {
	id, code, status, title, detail string
	links                           map[string]string
	source                          *jnode // object or nil
	meta                            *jnode
}

type docSpec struct {
	sc        schemaSpec
	dataKind  string // nil, resource, soft-collection, wrapper-collection, resources, identifier, identifiers, nil-identifiers
	data      []resSpec
	colType   string
	idents    []jsonapi.Identifier
	included  []resSpec
	relData   map[string][]string
	meta      *jnode // object or nil
	errors    []errSpec
	prepath   string
	fields    map[string][]string
	urlFrags  []string
	sortRules []string // sorting rules of the URL (they show in the self link of collection URLs)
	lateType  bool     // soft collection: the members are added before the collection is given its type
}

func (d docSpec) buildRes(rs resSpec) jsonapi.Resource {
	return buildRes(*d.sc.spec(rs.tn), rs.wrapped, rs.ops)
}

func metaOf(n *jnode) map[string]any {
	if n == nil {
		return nil
	}
	m := map[string]any{}
	for i, k := range n.keys {
		m[k] = rawJSON(n.vals[i].text())
	}
	return m
}

// rawJSON marshals as itself.
type rawJSON string

func (r rawJSON) MarshalJSON() ([]byte, error) { return []byte(r), nil }

func (d docSpec) build() (*jsonapi.Document, *jsonapi.URL) {
	doc := &jsonapi.Document{PrePath: d.prepath, RelData: d.relData}
	switch d.dataKind {
	case "resource":
		doc.Data = d.buildRes(d.data[0])
	case "soft-collection":
		typ := d.sc.spec(d.colType).softType()
		col := &jsonapi.SoftCollection{}
		if !d.lateType {
			col.SetType(&typ)
		}
		for _, rs := range d.data {
			col.Add(d.buildRes(rs))
		}
		if d.lateType {
			col.SetType(&typ)
		}
		doc.Data = col
	case "wrapper-collection":
		col := jsonapi.WrapCollection(d.sc.spec(d.colType).newWrapped())
		for _, rs := range d.data {
			col.Add(d.buildRes(rs))
		}
		doc.Data = col
	case "resources":
		col := &jsonapi.Resources{}
		for _, rs := range d.data {
			col.Add(d.buildRes(rs))
		}
		doc.Data = col
	case "identifier":
		doc.Data = d.idents[0]
	case "identifiers":
		ids := jsonapi.Identifiers{}
		ids = append(ids, d.idents...)
		doc.Data = ids
	case "nil-identifiers":
		doc.Data = jsonapi.Identifiers(nil)
	}
	for _, rs := range d.included {
		doc.Included = append(doc.Included, d.buildRes(rs))
	}
	if d.meta != nil {
		doc.Meta = jsonapi.Meta(metaOf(d.meta))
	}
	for _, e := range d.errors {
		je := jsonapi.Error{ID: e.id, Code: e.code, Status: e.status, Title: e.title, Detail: e.detail, Links: e.links}
		if e.source != nil {
			je.Source = metaOf(e.source)
		}
		if e.meta != nil {
			je.Meta = jsonapi.Meta(metaOf(e.meta))
		}
		doc.Errors = append(doc.Errors, je)
	}
	fields := map[string][]string{}
	shared := map[string][]string{}
	for k, v := range d.fields {
		// two types given the same selection get the very same slice (as a caller who
		// prepared one list for both would pass it)
		key := strings.Join(v, "\x00")
		if s, ok := shared[key]; ok && len(v) > 0 {
			fields[k] = s
			continue
		}
		fields[k] = append([]string{}, v...)
		shared[key] = fields[k]
	}
	if d.fields == nil {
		fields = nil // a URL written by hand without any selection
	}
	u := &jsonapi.URL{Fragments: d.urlFrags, IsCol: len(d.urlFrags) == 1, Params: &jsonapi.Params{Fields: fields}}
	if d.sortRules != nil {
		u.Params.SortingRules = append([]string{}, d.sortRules...)
	}
	return doc, u
}

func gMembers(n *jnode) string {
	if n == nil {
		return "[]"
	}
	var it []string
	for i, k := range n.keys {
		it = append(it, gPair(gStr(k), n.vals[i].gallina()))
	}
	return gList(it)
}

func gStrMap(m map[string]string) string {
	ks := make([]string, 0, len(m))
	for k := range m {
		ks = append(ks, k)
	}
	sort.Strings(ks)
	var it []string
	for _, k := range ks {
		it = append(it, gPair(gStr(k), gStr(m[k])))
	}
	return gList(it)
}

func (d docSpec) gRes(rs resSpec) string {
	return fmt.Sprintf("(%s, %s)", gNewRes(*d.sc.spec(rs.tn), rs.wrapped), gOps(rs.ops))
}

// gallina prints the arguments of Model/C02.v's run functions:
// data-kind tag, resource builders, identifiers, included builders, ...
func (d docSpec) gallina() string {
	var data, inc, ids, errs []string
	for _, rs := range d.data {
		data = append(data, d.gRes(rs))
	}
	for _, rs := range d.included {
		inc = append(inc, d.gRes(rs))
	}
	for _, i := range d.idents {
		ids = append(ids, fmt.Sprintf("(mkIdent %s %s)", gStr(i.ID), gStr(i.Type)))
	}
	for _, e := range d.errors {
		errs = append(errs, fmt.Sprintf("(mkErr %s %s %s %s %s %s %s %s)", gStr(e.id), gStr(e.code), gStr(e.status), gStr(e.title), gStr(e.detail),
			gStrMap(e.links), gMembers(e.source), gMembers(e.meta)))
	}
	ct := d.colType
	if d.dataKind == "resources" {
		ct = ""
	}
	return fmt.Sprintf("(mkDocSpec %s %s %s %s %s %s %s %s %s)", gStr(d.dataKind), gList(data), gStr(ct), gList(ids), gList(inc),
		gRelData(d.relData), gMembers(d.meta), gList(errs), gStr(d.prepath))
}

func (d docSpec) desc() string {
	var parts []string
	parts = append(parts, "data="+d.dataKind)
	if d.sortRules != nil {
		parts = append(parts, fmt.Sprintf("sort=%q", d.sortRules))
	}
	for _, rs := range d.data {
		var o []string
		for _, op := range rs.ops {
			o = append(o, fmt.Sprintf("%s=%s", op.key, descValue(op.val)))
		}
		parts = append(parts, fmt.Sprintf("{%s wrapped=%v %s}", rs.tn, rs.wrapped, strings.Join(o, " ")))
	}
	for _, i := range d.idents {
		parts = append(parts, fmt.Sprintf("ident{%q %q}", i.Type, i.ID))
	}
	for _, rs := range d.included {
		var o []string
		for _, op := range rs.ops {
			o = append(o, fmt.Sprintf("%s=%s", op.key, descValue(op.val)))
		}
		parts = append(parts, fmt.Sprintf("included{%s wrapped=%v %s}", rs.tn, rs.wrapped, strings.Join(o, " ")))
	}
	if d.meta != nil {
		parts = append(parts, "meta="+d.meta.text())
	}
	parts = append(parts, fmt.Sprintf("errors=%d fields=%v reldata=%v prepath=%q", len(d.errors), d.fields, d.relData, d.prepath))
	return strings.Join(parts, " ")
}

func (d docSpec) env() *stdEnv {
	env := newStdEnv()
	for _, rs := range append(append([]resSpec{}, d.data...), d.included...) {
		for _, o := range rs.ops {
			env.addValue(o.val)
		}
	}
	return env
}

// ---------- generation ----------

var metaValues = []*jnode{jNum("1"), jNum("-2.5"), jString("x"), jString("é<"), jBool(true), jNull(), jArr(jNum("1"), jString("a")), jObj().set("k", jNum("0"))}

func randMeta(r *rng) *jnode {
	if r.chance(1, 2) {
		return nil
	}
	m := jObj()
	n := r.intn(4)
	used := map[string]bool{}
	for i := 0; i < n; i++ {
		k := pick(r, []string{"a", "b", "count", "é", "x y"})
		if used[k] {
			continue
		}
		used[k] = true
		m.set(k, pick(r, metaValues).clone())
	}
	if len(m.keys) == 0 {
		return nil
	}
	return m
}

func randErrors(r *rng) []errSpec {
	n := pick(r, []int{0, 0, 0, 1, 2, 5})
	var out []errSpec
	ps := func() string {
		if r.bool() {
			return ""
		}
		return pick(r, []string{"1", "x", "Not Found", "é\"<", "400"})
	}
	for i := 0; i < n; i++ {
		e := errSpec{id: ps(), code: ps(), status: ps(), title: ps(), detail: ps()}
		if r.chance(1, 3) {
			e.links = map[string]string{"about": pick(r, []string{"/x", "", "http://h"})}
		}
		if r.chance(1, 3) {
			e.source = jObj().set("pointer", jString("/data")).set("n", jNum("3"))
		}
		if r.chance(1, 3) {
			e.meta = randMeta(r)
		}
		out = append(out, e)
	}
	return out
}

func docSchema(r *rng) schemaSpec {
	all := allKindsSpec("alltypes", "other")
	small := randTypeSpec(r, "small", 5, []string{"other", "alltypes"})
	other := typeSpec{name: "other", fields: []fieldSpec{{name: "title", code: 1}, {rel: true, name: "owner", toOne: true, target: "small"},
		{rel: true, name: "editor", toOne: true, target: "alltypes"}}}
	if r.chance(1, 3) {
		// names shared with the other types
		other.fields = append(other.fields, fieldSpec{name: "string", code: 1}, fieldSpec{rel: true, name: "many", target: "small"}, fieldSpec{name: "a", code: 2, nullable: true})
	}
	return schemaSpec{types: []typeSpec{all, other, small}, wrapped: map[string]bool{"alltypes": r.bool(), "small": r.bool(), "other": r.bool()}, derived: r.chance(1, 4)}
}

func randResSpec(r *rng, sc schemaSpec, tn string, id string) resSpec {
	t := *sc.spec(tn)
	ops := c01Ops(r, t, false)
	ops[0] = setOp{"id", id}
	return resSpec{tn: tn, wrapped: sc.wrapped[tn], ops: ops}
}

func randFieldSel(r *rng, sc schemaSpec) map[string][]string {
	out := map[string][]string{}
	for _, t := range sc.types {
		switch r.intn(5) {
		case 0: // no entry
		case 1:
			out[t.name] = []string{}
		case 2:
			out[t.name] = t.fieldNames()
		default:
			var sel []string
			for _, f := range t.fieldNames() {
				if r.bool() {
					sel = append(sel, f)
				}
			}
			if r.chance(1, 4) {
				sel = append(sel, "nope")
			}
			if r.chance(1, 4) {
				sel = append(sel, "id")
			}
			if r.chance(1, 4) && len(sel) > 0 {
				sel = append(sel, sel[0])
			}
			shuffle(r, sel)
			if sel == nil {
				sel = []string{}
			}
			out[t.name] = sel
		}
	}
	return out
}

func randRelData(r *rng, sc schemaSpec) map[string][]string {
	out := map[string][]string{}
	for _, t := range sc.types {
		var rels []string
		for _, f := range t.fields {
			if f.rel && r.bool() {
				rels = append(rels, f.name)
			}
		}
		if r.chance(1, 5) {
			rels = append(rels, "nope")
		}
		if len(rels) > 0 || r.chance(1, 4) {
			shuffle(r, rels)
			out[t.name] = rels
		}
	}
	return out
}

func randDoc(r *rng) docSpec {
	sc := docSchema(r)
	d := docSpec{sc: sc, prepath: pick(r, []string{"", "/", "https://example.org", "https://example.org/api/", "https://example.org/relationships/v1", "https://example.org/api//", "//"})}
	d.dataKind = pick(r, []string{"nil", "resource", "resource", "soft-collection", "wrapper-collection", "resources", "resources", "identifier", "identifiers", "nil-identifiers"})
	tn := pick(r, []string{"alltypes", "small", "other"})
	d.urlFrags = []string{tn}
	n := pick(r, []int{0, 1, 2, 4, 12, 13})
	uid := func(i int) string { return fmt.Sprintf("%s%d", pick(r, []string{"", "r", "é", "a b"}), i) }
	switch d.dataKind {
	case "resource":
		d.data = []resSpec{randResSpec(r, sc, tn, uid(0))}
		d.urlFrags = []string{tn, "x"}
	case "soft-collection":
		d.colType = tn
		d.lateType = r.chance(1, 3)
		sc.wrapped[tn] = false
		for i := 0; i < n; i++ {
			d.data = append(d.data, randResSpec(r, sc, tn, uid(i)))
		}
	case "wrapper-collection":
		d.colType = tn
		sc.wrapped[tn] = true
		for i := 0; i < n; i++ {
			d.data = append(d.data, randResSpec(r, sc, tn, uid(i)))
		}
	case "resources":
		for i := 0; i < n; i++ {
			d.data = append(d.data, randResSpec(r, sc, pick(r, []string{tn, tn, "other"}), uid(i)))
		}
	case "identifier":
		d.idents = []jsonapi.Identifier{{ID: pick(r, dictIDs), Type: tn}}
	case "identifiers":
		for i := 0; i < n; i++ {
			d.idents = append(d.idents, jsonapi.Identifier{ID: uid(i), Type: tn})
		}
	}
	ni := pick(r, []int{0, 0, 1, 2, 5})
	// either distinct IDs, or the same IDs under different types (the pairs stay distinct)
	sameIDs := r.bool()
	incTypes := []string{"other", "small", "alltypes"}
	for i := 0; i < ni; i++ {
		if sameIDs {
			d.included = append(d.included, randResSpec(r, sc, incTypes[i%3], fmt.Sprintf("inc%d", i/3)))
		} else {
			d.included = append(d.included, randResSpec(r, sc, pick(r, incTypes), fmt.Sprintf("inc%d", (i*3)%ni)))
		}
	}
	d.meta = randMeta(r)
	if r.chance(1, 4) {
		d.errors = randErrors(r)
	}
	d.fields = randFieldSel(r, sc)
	if r.chance(1, 12) {
		d.fields = nil
	}
	d.relData = randRelData(r, sc)
	if len(d.urlFrags) == 1 && r.chance(1, 3) {
		// rules whose names the self link must escape
		d.sortRules = pick(r, [][]string{{"-created at", "id"}, {"é", "-a+b"}, {"a&b=c"}, {"string", "-int"}, {}})
	}
	return d
}

// oErrors / oMeta observe Error values and meta maps through json.Marshal.
func treeOfAny(v any) *jnode { return jsonOfValue(v) }
