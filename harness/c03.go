package main

import (
	"fmt"
	"strings"

	"github.com/mfcochauxlaberge/jsonapi"
)

// ---------- an independent, strict RFC 8259 validator ----------

type rfcParser struct {
	s string
	i int
}

func rfcValid(s string) bool {
	p := &rfcParser{s: s}
	p.ws()
	if !p.value(0) {
		return false
	}
	p.ws()
	return p.i == len(p.s)
}
func (p *rfcParser) ws() {
	for p.i < len(p.s) && strings.IndexByte(" \t\n\r", p.s[p.i]) >= 0 {
		p.i++
	}
}
func (p *rfcParser) lit(l string) bool {
	if strings.HasPrefix(p.s[p.i:], l) {
		p.i += len(l)
		return true
	}
	return false
}
func (p *rfcParser) digits() bool {
	st := p.i
	for p.i < len(p.s) && p.s[p.i] >= '0' && p.s[p.i] <= '9' {
		p.i++
	}
	return p.i > st
}
func (p *rfcParser) str() bool {
	if p.i >= len(p.s) || p.s[p.i] != '"' {
		return false
	}
	p.i++
	for p.i < len(p.s) {
		c := p.s[p.i]
		switch {
		case c == '"':
			p.i++
			return true
		case c < 0x20:
			return false
		case c == '\\':
			p.i++
			if p.i >= len(p.s) {
				return false
			}
			if strings.IndexByte(`"\/bfnrt`, p.s[p.i]) >= 0 {
				p.i++
			} else if p.s[p.i] == 'u' {
				if p.i+4 >= len(p.s) {
					return false
				}
				for _, h := range p.s[p.i+1 : p.i+5] {
					if !strings.ContainsRune("0123456789abcdefABCDEF", h) {
						return false
					}
				}
				p.i += 5
			} else {
				return false
			}
		default:
			p.i++
		}
	}
	return false
}
func (p *rfcParser) value(depth int) bool {
	if p.i >= len(p.s) || depth > 10000 {
		return false
	}
	switch c := p.s[p.i]; {
	case c == '{':
		p.i++
		p.ws()
		if p.i < len(p.s) && p.s[p.i] == '}' {
			p.i++
			return true
		}
		for {
			p.ws()
			if !p.str() {
				return false
			}
			p.ws()
			if p.i >= len(p.s) || p.s[p.i] != ':' {
				return false
			}
			p.i++
			p.ws()
			if !p.value(depth + 1) {
				return false
			}
			p.ws()
			if p.i < len(p.s) && p.s[p.i] == ',' {
				p.i++
				continue
			}
			if p.i < len(p.s) && p.s[p.i] == '}' {
				p.i++
				return true
			}
			return false
		}
	case c == '[':
		p.i++
		p.ws()
		if p.i < len(p.s) && p.s[p.i] == ']' {
			p.i++
			return true
		}
		for {
			p.ws()
			if !p.value(depth + 1) {
				return false
			}
			p.ws()
			if p.i < len(p.s) && p.s[p.i] == ',' {
				p.i++
				continue
			}
			if p.i < len(p.s) && p.s[p.i] == ']' {
				p.i++
				return true
			}
			return false
		}
	case c == '"':
		return p.str()
	case c == 't':
		return p.lit("true")
	case c == 'f':
		return p.lit("false")
	case c == 'n':
		return p.lit("null")
	default:
		if c == '-' {
			p.i++
		}
		if p.i < len(p.s) && p.s[p.i] == '0' {
			p.i++
		} else if !p.digits() {
			return false
		}
		if p.i < len(p.s) && p.s[p.i] == '.' {
			p.i++
			if !p.digits() {
				return false
			}
		}
		if p.i < len(p.s) && (p.s[p.i] == 'e' || p.s[p.i] == 'E') {
			p.i++
			if p.i < len(p.s) && (p.s[p.i] == '+' || p.s[p.i] == '-') {
				p.i++
			}
			if !p.digits() {
				return false
			}
		}
		return true
	}
}

// ---------- well-formedness of a marshaled document, from the property text ----------

func member(n *jnode, k string) *jnode {
	if n == nil || n.kind != "obj" {
		return nil
	}
	for i, x := range n.keys {
		if x == k {
			return n.vals[i]
		}
	}
	return nil
}

func isIdentifierObj(n *jnode) bool {
	return n != nil && n.kind == "obj" && member(n, "id") != nil && member(n, "id").kind == "str" &&
		member(n, "type") != nil && member(n, "type").kind == "str"
}

func wfResourceObject(n *jnode, prepath string) string {
	if n == nil || n.kind != "obj" {
		return "resource is not an object"
	}
	id, ty := member(n, "id"), member(n, "type")
	if id == nil || id.kind != "str" || ty == nil || ty.kind != "str" {
		return "resource without string id/type"
	}
	self := member(member(n, "links"), "self")
	if self == nil || self.kind != "str" {
		return "resource without links.self"
	}
	if id.s != "" && ty.s != "" {
		want := prepath
		if !strings.HasSuffix(want, "/") {
			want += "/"
		}
		want += ty.s + "/" + id.s
		if self.s != want {
			return fmt.Sprintf("self link %q, expected %q", self.s, want)
		}
	}
	if rels := member(n, "relationships"); rels != nil {
		if rels.kind != "obj" {
			return "relationships is not an object"
		}
		for i, ro := range rels.vals {
			l := member(ro, "links")
			if member(l, "self") == nil || member(l, "self").kind != "str" || member(l, "related") == nil || member(l, "related").kind != "str" {
				return "relationship " + rels.keys[i] + " without self/related links"
			}
			if d := member(ro, "data"); d != nil {
				ok := d.kind == "null" || isIdentifierObj(d)
				if d.kind == "arr" {
					ok = true
					for _, x := range d.arr {
						ok = ok && isIdentifierObj(x)
					}
				}
				if !ok {
					return "relationship " + rels.keys[i] + " has ill-formed data"
				}
			}
		}
	}
	return ""
}

func c03WellFormed(out []byte, prepath string, identDoc bool) string {
	if !rfcValid(string(out)) {
		return "output is not valid JSON"
	}
	t := parseJSON(out)
	if t == nil || t.kind != "obj" {
		return "top level is not an object"
	}
	if member(t, "jsonapi") == nil {
		return "no jsonapi member"
	}
	if s := member(member(t, "links"), "self"); s == nil || s.kind != "str" {
		return "no self link"
	}
	data, errs, inc := member(t, "data"), member(t, "errors"), member(t, "included")
	if data != nil && errs != nil {
		return "both data and errors"
	}
	if inc != nil && data == nil {
		return "included without data"
	}
	var objs []*jnode
	if data != nil && !identDoc {
		switch data.kind {
		case "obj":
			objs = append(objs, data)
		case "arr":
			objs = append(objs, data.arr...)
		case "null":
		default:
			return "data is neither null, object nor array"
		}
	}
	if inc != nil {
		if inc.kind != "arr" {
			return "included is not an array"
		}
		objs = append(objs, inc.arr...)
	}
	for _, o := range objs {
		if m := wfResourceObject(o, prepath); m != "" {
			return m
		}
	}
	return ""
}

func c03Marshal(c *ctx, d docSpec, how string) {
	env := d.env()
	var obs, key, detail, self string
	p, pv := guard(func() {
		doc, u := d.build()
		self = doc.PrePath + u.String()
		out, err := jsonapi.MarshalDocument(doc, u)
		if err != nil {
			obs = oC("fail")
			return
		}
		if m := c03WellFormed(out, d.prepath, strings.Contains(d.dataKind, "identifier")); m != "" {
			key, detail = "document-not-well-formed", m+": "+string(out)
		}
		tree := parseJSON(out)
		if tree == nil {
			obs = oC("invalid-json")
			return
		}
		// the primary resource objects carry the types and IDs of the resources given, in order
		if data := member(tree, "data"); key == "" && data != nil && len(d.errors) == 0 && !strings.Contains(d.dataKind, "identifier") && d.dataKind != "nil" {
			objs := data.arr
			if data.kind == "obj" {
				objs = []*jnode{data}
			}
			if len(objs) == len(d.data) {
				for i, o := range objs {
					ty, id := member(o, "type"), member(o, "id")
					wantID, _ := d.data[i].ops[0].val.(string)
					if ty == nil || id == nil || ty.s != d.data[i].tn || id.s != wantID {
						key, detail = "document-not-well-formed", fmt.Sprintf("data[%d] does not carry the type and id of the resource given (%s/%s): %s", i, d.data[i].tn, wantID, out)
						break
					}
				}
			}
		}
		env.addTree(tree)
		obs = oOk(tree.obs())
	})
	if p {
		obs = oPanic()
		key, detail = "marshal-panics", fmt.Sprint(pv)
	}
	feature := fmt.Sprintf("%s n=%d inc=%d errors=%d prepath=%q", d.dataKind, min(len(d.data), 5), min(len(d.included), 3), min(len(d.errors), 2), d.prepath)
	k := c.add("doc-marshal", d.desc(), feature, false,
		fmt.Sprintf("(run_doc_marshal %s %s %s %s)", env.gallina(), d.gallina(), gFieldSel(d.fields), gStr(self)), obs, key, detail)
	k.Replay = how
}

// Include histories
// altSpec is the named type with one more attribute: a different definition
// under the same name.
func altSpec(d docSpec, tn string) typeSpec {
	t := *d.sc.spec(tn)
	t.fields = append(append([]fieldSpec{}, t.fields...), fieldSpec{name: "zz-extra", code: 1})
	return t
}

func c03Include(c *ctx, d docSpec, incs []resSpec, alts []bool, how string) {
	var obs, key, detail string
	viaUnmarshal := strings.HasPrefix(how, "unmarshaled")
	p, pv := guard(func() {
		doc, u := d.build()
		doc.Included = nil
		if viaUnmarshal {
			// the same document as a server receives it: marshaled, then unmarshaled
			if out, err := jsonapi.MarshalDocument(doc, u); err == nil {
				if doc2, err := jsonapi.UnmarshalDocument(out, d.sc.build()); err == nil && doc2.Data != nil {
					doc2.PrePath = doc.PrePath
					doc = doc2
					doc.Included = nil
				}
			}
		}
		for i, rs := range incs {
			if alts[i] {
				doc.Include(buildRes(altSpec(d, rs.tn), rs.wrapped, rs.ops))
			} else {
				doc.Include(d.buildRes(rs))
			}
		}
		var it []string
		seen := map[[2]string]bool{}
		add := func(r jsonapi.Resource, where string) {
			k := [2]string{r.GetType().Name, r.Get("id").(string)}
			if seen[k] && key == "" {
				key, detail = "type-id-pair-twice", fmt.Sprintf("%s %q appears twice (%s)", k[0], k[1], where)
			}
			seen[k] = true
		}
		switch x := doc.Data.(type) {
		case jsonapi.Resource:
			add(x, "primary")
		case jsonapi.Collection:
			for i := 0; i < x.Len(); i++ {
				add(x.At(i), "primary")
			}
		}
		for _, r := range doc.Included {
			add(r, "included")
			it = append(it, oL([]string{oS(r.Get("id").(string)), oS(r.GetType().Name)}))
		}
		obs = oOk(oL(it))
	})
	if p {
		obs = oPanic()
		key, detail = "include-panics", fmt.Sprint(pv)
	}
	d2 := d
	d2.included = nil
	var gi []string
	nalt := 0
	for i, rs := range incs {
		if alts[i] {
			nalt++
			gi = append(gi, fmt.Sprintf("(%s, %s)", gNewRes(altSpec(d, rs.tn), rs.wrapped), gOps(rs.ops)))
		} else {
			gi = append(gi, d.gRes(rs))
		}
	}
	feature := fmt.Sprintf("%s primary=%d includes=%d othertypedef=%d", d.dataKind, min(len(d.data), 5), min(len(incs), 8), min(nalt, 2))
	c.count("include:" + d.dataKind)
	k := c.add("include", d2.desc()+fmt.Sprintf(" + %d Include calls", len(incs)), feature, len(incs) == 0,
		fmt.Sprintf("(run_include %s %s)", d2.gallina(), gList(gi)), obs, key, detail)
	k.Replay = how
}

// c03IncludeAfterUnmarshal: a document that already lists included resources is marshaled,
// unmarshaled (as a server receives it) and then extended with Include; oracle only (the
// payload orders the inclusions, so the history is not the model's).
func c03IncludeAfterUnmarshal(c *ctx, d docSpec, incs []resSpec) {
	var key, detail string
	n := 0
	p, pv := guard(func() {
		doc, u := d.build()
		doc.Included = nil
		for _, rs := range incs[:len(incs)/2] {
			doc.Include(d.buildRes(rs))
		}
		out, err := jsonapi.MarshalDocument(doc, u)
		if err != nil {
			return
		}
		doc2, err := jsonapi.UnmarshalDocument(out, d.sc.build())
		if err != nil || doc2.Data == nil {
			return
		}
		for _, rs := range incs {
			doc2.Include(d.buildRes(rs))
		}
		seen := map[[2]string]bool{}
		add := func(r jsonapi.Resource, where string) {
			k := [2]string{r.GetType().Name, r.Get("id").(string)}
			if seen[k] && key == "" {
				key, detail = "type-id-pair-twice", fmt.Sprintf("%s %q appears twice (%s) after UnmarshalDocument and Include", k[0], k[1], where)
			}
			seen[k] = true
			n++
		}
		switch x := doc2.Data.(type) {
		case jsonapi.Resource:
			add(x, "primary")
		case jsonapi.Collection:
			for i := 0; i < x.Len(); i++ {
				add(x.At(i), "primary")
			}
		}
		for _, r := range doc2.Included {
			add(r, "included")
		}
	})
	if p {
		key, detail = "include-panics", fmt.Sprint(pv)
	}
	how := fmt.Sprintf("%s, %d inclusions in the payload, %d Include calls after UnmarshalDocument", d.dataKind, len(incs)/2, len(incs))
	k := c.add("include-oracle", d.desc()+" "+how, fmt.Sprintf("%s incs=%d", d.dataKind, min(len(incs), 8)), n == 0, oL(nil), oL(nil), key, detail)
	k.Replay = how
}

func runC03(c *ctx) {
	n := 160
	if c.thorough() {
		n = 4000
	}
	for i := 0; i < n; i++ {
		d := randDoc(c.r)
		// IDs and type names that JSON must escape
		if c.r.chance(1, 3) {
			for j := range d.data {
				d.data[j].ops[0] = setOp{"id", pick(c.r, []string{"a\"b", "a\\b", "</script>", " ", "x\ty", "é", "c\x01d", "e\x7ff", "g\vh\a", "\ufffd"}) + fmt.Sprint(j)}
			}
		}
		c03Marshal(c, d, "random")
	}
	for i := 0; i < n; i++ {
		d := randDoc(c.r)
		if strings.Contains(d.dataKind, "identifier") || d.dataKind == "nil" {
			d.dataKind = "resources"
			d.data = nil
			for j := 0; j < 3; j++ {
				d.data = append(d.data, randResSpec(c.r, d.sc, pick(c.r, []string{"small", "other"}), fmt.Sprint("p", j)))
			}
		}
		d.errors = nil
		var incs []resSpec
		var alts []bool
		k := c.r.intn(9)
		for j := 0; j < k; j++ {
			// the same name and ID under another definition of the type
			alts = append(alts, c.r.chance(1, 4))
			switch {
			case len(d.data) > 0 && c.r.chance(1, 3):
				incs = append(incs, pick(c.r, d.data)) // a primary-data resource
			case len(incs) > 0 && c.r.chance(1, 3):
				incs = append(incs, pick(c.r, incs)) // a repeat
			default:
				incs = append(incs, randResSpec(c.r, d.sc, pick(c.r, []string{"small", "other", "alltypes"}), pick(c.r, []string{"1", "2", "p0", "p1", "a b", "a"})))
			}
		}
		c03Include(c, d, incs, alts, "random")
		if c.r.chance(1, 2) {
			c03Include(c, d, incs, alts, "unmarshaled, then Include")
		}
		if len(incs) >= 2 && c.r.chance(1, 2) {
			c03IncludeAfterUnmarshal(c, d, incs)
		}
	}
}

func init() {
	imports := []string{"Model.GoTime", "Gen.TypeGo", "Model.Schema", "Model.Value", "Model.Json", "Model.SoftRes", "Model.Wrapper", "Model.Resource", "Model.Unmarshal", "Model.Document", "Model.C17", "Model.C01", "Model.C02"}
	register("C03", imports, runC03)
}
