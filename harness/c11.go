package main

import (
	"bytes"
	"fmt"
	"reflect"
	"sort"
	"strings"

	"github.com/mfcochauxlaberge/jsonapi"
)

func permuteDoc(r *rng, d docSpec) docSpec {
	p := d
	permRes := func(rs resSpec) resSpec {
		out := resSpec{tn: rs.tn, wrapped: rs.wrapped}
		for _, o := range rs.ops {
			if ids, ok := o.val.([]string); ok {
				ids = append([]string{}, ids...)
				shuffle(r, ids)
				o.val = ids
			}
			out.ops = append(out.ops, o)
		}
		return out
	}
	p.data = nil
	for _, rs := range d.data {
		p.data = append(p.data, permRes(rs))
	}
	p.included = nil
	for _, rs := range d.included {
		p.included = append(p.included, permRes(rs))
	}
	// the order of included resources with distinct IDs is irrelevant (equal IDs keep their order)
	seenID, distinct := map[string]bool{}, true
	for _, rs := range p.included {
		id, _ := rs.ops[0].val.(string)
		distinct = distinct && !seenID[id]
		seenID[id] = true
	}
	if distinct {
		shuffle(r, p.included)
	}
	p.fields = map[string][]string{}
	for k, v := range d.fields {
		v = append([]string{}, v...)
		shuffle(r, v)
		p.fields[k] = v
	}
	p.relData = map[string][]string{}
	for k, v := range d.relData {
		v = append([]string{}, v...)
		shuffle(r, v)
		p.relData[k] = v
	}
	return p
}

func readings(res []jsonapi.Resource) []map[string]any {
	var out []map[string]any
	for _, r := range res {
		m := map[string]any{"id": r.Get("id"), "type": r.GetType().Name}
		for k := range r.Attrs() {
			m[k] = r.Get(k)
		}
		for k, rel := range r.Rels() {
			v := r.Get(k)
			if !rel.ToOne {
				ids := append([]string{}, v.([]string)...)
				sort.Strings(ids)
				if len(ids) == 0 {
					ids = nil
				}
				v = ids
			}
			m[k] = v
		}
		out = append(out, m)
	}
	return out
}

func docResources(doc *jsonapi.Document) []jsonapi.Resource {
	var out []jsonapi.Resource
	switch x := doc.Data.(type) {
	case jsonapi.Resource:
		out = append(out, x)
	case jsonapi.Collection:
		for i := 0; i < x.Len(); i++ {
			out = append(out, x.At(i))
		}
	}
	inc := append([]jsonapi.Resource{}, doc.Included...)
	sort.SliceStable(inc, func(i, j int) bool { return inc[i].Get("id").(string) < inc[j].Get("id").(string) })
	return append(out, inc...)
}

func sortedFieldSel(u *jsonapi.URL) map[string][]string {
	out := map[string][]string{}
	for k, v := range u.Params.Fields {
		v = append([]string{}, v...)
		sort.Strings(v)
		out[k] = v
	}
	return out
}

func c11Case(c *ctx, d docSpec, how string) {
	env := d.env()
	var obs, key, detail, self string
	p, pv := guard(func() {
		doc, u := d.build()
		self = doc.PrePath + u.String()
		before := readings(docResources(doc))
		selBefore := sortedFieldSel(u)
		first, err := jsonapi.MarshalDocument(doc, u)
		if err != nil {
			obs = oC("fail")
			return
		}
		tree := parseJSON(first)
		env.addTree(tree)
		obs = oOk(tree.obs())
		// the same document and URL again and again
		for i := 0; i < 6; i++ {
			again, _ := jsonapi.MarshalDocument(doc, u)
			if !bytes.Equal(first, again) && key == "" {
				key, detail = "marshal-not-deterministic", fmt.Sprintf("call %d differs: %s vs %s", i+2, first, again)
			}
		}
		// freshly built copies (other map layouts) and order-permuted copies
		for i := 0; i < 4 && key == ""; i++ {
			doc2, u2 := d.build()
			out2, _ := jsonapi.MarshalDocument(doc2, u2)
			if !bytes.Equal(first, out2) {
				key, detail = "marshal-not-deterministic", fmt.Sprintf("rebuilt document differs: %s vs %s", first, out2)
			}
			pd := permuteDoc(c.r, d)
			doc3, u3 := pd.build()
			out3, _ := jsonapi.MarshalDocument(doc3, u3)
			if !bytes.Equal(first, out3) && key == "" {
				key, detail = "marshal-depends-on-order", fmt.Sprintf("%s vs %s", first, out3)
			}
		}
		// nothing read later has changed, other than the documented orders
		if after := readings(docResources(doc)); !reflect.DeepEqual(before, after) && key == "" {
			key, detail = "marshal-changes-readings", fmt.Sprintf("%v became %v", before, after)
		}
		if selAfter := sortedFieldSel(u); !reflect.DeepEqual(selBefore, selAfter) && key == "" {
			key, detail = "marshal-changes-url", fmt.Sprintf("%v became %v", selBefore, selAfter)
		}
	})
	if p {
		obs = oPanic()
		key, detail = "marshal-panics", fmt.Sprint(pv)
	}
	nmany := 0
	for _, rs := range append(append([]resSpec{}, d.data...), d.included...) {
		for _, o := range rs.ops {
			if ids, ok := o.val.([]string); ok && len(ids) > 1 {
				nmany++
			}
		}
	}
	feature := fmt.Sprintf("%s n=%d inc=%d tomany=%d", d.dataKind, min(len(d.data), 5), min(len(d.included), 4), min(nmany, 5))
	k := c.add("doc-deterministic", d.desc(), feature, false,
		fmt.Sprintf("(run_doc_marshal %s %s %s %s)", env.gallina(), d.gallina(), gFieldSel(d.fields), gStr(self)), obs, key, detail)
	k.Replay = how
}

func runC11(c *ctx) {
	// corpus: distinct IDs whose concatenation with the type name coincides
	// ("xt"+"t" = "x"+"tt"), in both orders
	{
		ta := typeSpec{name: "t", fields: []fieldSpec{{name: "a", code: 1}}}
		tb := typeSpec{name: "tt", fields: []fieldSpec{{name: "a", code: 1}}}
		sc := schemaSpec{types: []typeSpec{ta, tb}, wrapped: map[string]bool{}}
		inc := []resSpec{{tn: "t", ops: []setOp{{"id", "xt"}, {"a", "1"}}}, {tn: "tt", ops: []setOp{{"id", "x"}, {"a", "2"}}}}
		for _, rev := range []bool{false, true} {
			d := docSpec{sc: sc, dataKind: "resource", urlFrags: []string{"t", "x"},
				data:   []resSpec{{tn: "t", ops: []setOp{{"id", "1"}, {"a", "0"}}}},
				fields: map[string][]string{"t": {"a"}, "tt": {"a"}}, relData: map[string][]string{}}
			if rev {
				d.included = []resSpec{inc[1], inc[0]}
			} else {
				d.included = []resSpec{inc[0], inc[1]}
			}
			c11Case(c, d, "corpus key collision")
		}
	}
	// corpus: to-many IDs that an implementation might compare as numbers here and as text there
	for _, wrapped := range []bool{false, true} {
		all := allKindsSpec("alltypes", "other")
		sc := schemaSpec{types: []typeSpec{all, {name: "other"}}, wrapped: map[string]bool{"alltypes": wrapped}}
		for _, ids := range [][]string{{"9", "10", "1a"}, {"10", "9", "1a", "1e1", "+7", "007", "7"}, {"2", "10", "1"}, {"b", "B", "a", "10", "9"}} {
			d := docSpec{sc: sc, dataKind: "resource", urlFrags: []string{"alltypes", "x"}, prepath: "/p",
				data:   []resSpec{{tn: "alltypes", wrapped: wrapped, ops: []setOp{{"id", "x"}, {"many", ids}}}},
				fields: map[string][]string{"alltypes": {"many"}}, relData: map[string][]string{"alltypes": {"many"}}}
			c11Case(c, d, "corpus numeric-looking to-many IDs")
		}
	}
	n := 200
	if c.thorough() {
		n = 5000
	}
	for i := 0; i < n; i++ {
		d := randDoc(c.r)
		if strings.Contains(d.dataKind, "nil") && c.r.bool() {
			continue
		}
		// distinct included IDs (the property's domain)
		numeric := []string{"7", "007", "+7", "10", "2", "1a", "1", "01", "-0", "0", "1e1", "0x7", " 7", "7.0", "９"}
		shuffle(c.r, numeric)
		useNumeric := c.r.chance(1, 3) && len(d.included) <= len(numeric)
		for j := range d.included {
			d.included[j].ops[0] = setOp{"id", fmt.Sprintf("inc-%d", (j*7+3)%len(d.included))}
			if useNumeric {
				// IDs an implementation might order as numbers
				d.included[j].ops[0] = setOp{"id", numeric[j]}
			}
		}
		if !useNumeric && c.r.chance(1, 4) {
			// one ID under several types: distinct type/ID pairs, equal IDs
			seen := map[string]bool{}
			for j := range d.included {
				k := d.included[j].tn + "/1"
				if !seen[k] {
					seen[k] = true
					d.included[j].ops[0] = setOp{"id", "1"}
				}
			}
		}
		c11Case(c, d, "random")
	}
}

func init() {
	imports := []string{"Model.GoTime", "Gen.TypeGo", "Model.Schema", "Model.Value", "Model.Json", "Model.SoftRes", "Model.Wrapper", "Model.Resource", "Model.Unmarshal", "Model.Document", "Model.C17", "Model.C01", "Model.C02"}
	register("C11", imports, runC11)
}
