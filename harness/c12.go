package main

// C12: one built schema shared by concurrent readers.
//
//   threads   K goroutines run their own lists of schema queries at once; the
//             model runs the same lists under a schedule the harness draws;
//             results per thread, the schema afterwards and the number of
//             writes are compared.
//   snapshot  every listed operation, alone, leaves the schema as it was
//             (contents, nil-ness and identity of every map and slice).
//   race      a second build of this program with -race (and one without)
//             runs all listed operations from 2..16 goroutines; any report of
//             the race detector, any runtime fatal error and any result that
//             differs from the one the operation gave alone is a failure.

import (
	"bytes"
	"fmt"
	"net/url"
	"os"
	"os/exec"
	"path/filepath"
	"reflect"
	"sort"
	"strconv"
	"strings"
	"sync"

	"github.com/mfcochauxlaberge/jsonapi"
)

func c12SchemaSpec(r *rng) schemaSpec {
	us := urlSchema(r)
	all := allKindsSpec("alltypes", "other")
	small := randTypeSpec(r, "small", 5, []string{"other", "alltypes", "t"})
	other := typeSpec{name: "other", fields: []fieldSpec{{name: "title", code: 1}, {rel: true, name: "owner", toOne: true, target: "small"}}}
	ts := append(append([]typeSpec{}, us.types...), all, other, small)
	return schemaSpec{types: ts, wrapped: map[string]bool{"alltypes": true, "small": r.bool(), "other": r.bool()}}
}

// the shared schema: the spec's types plus a soft type whose maps are nil
func c12Build(sc schemaSpec) *jsonapi.Schema {
	s := sc.build()
	s.Types = append(s.Types, c12Loose(), jsonapi.Type{Name: "bare"})
	return s
}

// a soft type written by hand, whose relationships do not say where they start
// and which uses one name for an attribute and a relationship
func c12Loose() jsonapi.Type {
	return jsonapi.Type{Name: "loose",
		Attrs: map[string]jsonapi.Attr{"title": {Name: "title", Type: jsonapi.AttrTypeString}, "both": {Name: "both", Type: jsonapi.AttrTypeString}},
		Rels: map[string]jsonapi.Rel{"r": {FromName: "r", ToOne: true, ToType: "other"}, "rs": {FromName: "rs", ToType: "other"},
			"both": {FromName: "both", ToOne: true, ToType: "other"}}}
}

func c12Gallina(sc schemaSpec) string {
	var ts []string
	for _, t := range sc.types {
		ts = append(ts, sc.gTypeIn(t))
	}
	ts = append(ts, gType(c12Loose()), gType(jsonapi.Type{Name: "bare"}))
	return "(mkSchema " + gList(ts) + ")"
}

// ---------- deep snapshot: contents, nil-ness and identity ----------

type c12Snap struct {
	types    []jsonapi.Type
	typesPtr uintptr
	nilAttrs []bool
	nilRels  []bool
	attrsPtr []uintptr
	relsPtr  []uintptr
	hasNew   []bool
	whole    string // every field of the Schema value, unexported ones included
}

func snapSchema(s *jsonapi.Schema) c12Snap {
	sn := c12Snap{types: copyTypes(s.Types), whole: fmt.Sprintf("%+v", *s)}
	if len(s.Types) > 0 {
		sn.typesPtr = reflect.ValueOf(s.Types).Pointer()
	}
	for _, t := range s.Types {
		sn.nilAttrs = append(sn.nilAttrs, t.Attrs == nil)
		sn.nilRels = append(sn.nilRels, t.Rels == nil)
		sn.attrsPtr = append(sn.attrsPtr, reflect.ValueOf(t.Attrs).Pointer())
		sn.relsPtr = append(sn.relsPtr, reflect.ValueOf(t.Rels).Pointer())
		sn.hasNew = append(sn.hasNew, t.NewFunc != nil)
	}
	return sn
}

func (a c12Snap) diff(s *jsonapi.Schema) string {
	b := snapSchema(s)
	if len(a.types) != len(b.types) {
		return fmt.Sprintf("number of types %d -> %d", len(a.types), len(b.types))
	}
	if a.typesPtr != b.typesPtr {
		return "Types slice replaced"
	}
	for i := range a.types {
		ta, tb := a.types[i], b.types[i]
		if ta.Name != tb.Name {
			return fmt.Sprintf("type %d renamed/reordered %q -> %q", i, ta.Name, tb.Name)
		}
		if a.nilAttrs[i] != b.nilAttrs[i] || a.nilRels[i] != b.nilRels[i] {
			return "nil map of type " + ta.Name + " initialised"
		}
		if a.attrsPtr[i] != b.attrsPtr[i] || a.relsPtr[i] != b.relsPtr[i] {
			return "map of type " + ta.Name + " replaced"
		}
		if a.hasNew[i] != b.hasNew[i] {
			return "NewFunc of type " + ta.Name + " changed"
		}
		if !reflect.DeepEqual(ta.Attrs, tb.Attrs) && len(ta.Attrs)+len(tb.Attrs) > 0 {
			return "attributes of type " + ta.Name + " changed"
		}
		if !reflect.DeepEqual(ta.Rels, tb.Rels) && len(ta.Rels)+len(tb.Rels) > 0 {
			return "relationships of type " + ta.Name + " changed"
		}
	}
	if a.whole != b.whole {
		return "a field of the Schema value changed (unexported state): " + firstDiff(a.whole, b.whole)
	}
	return ""
}

func firstDiff(a, b string) string {
	i := 0
	for i < len(a) && i < len(b) && a[i] == b[i] {
		i++
	}
	lo := max(0, i-30)
	return fmt.Sprintf("%q -> %q", a[lo:min(len(a), i+40)], b[lo:min(len(b), i+40)])
}

// ---------- the listed operations with their own inputs ----------

type c12Op struct {
	kind string // url doc partial new marshal has get check rels
	arg  string
	tn   string
}

func (o c12Op) String() string {
	a := o.arg
	if len(a) > 120 {
		a = a[:120] + "…"
	}
	return fmt.Sprintf("%s(%s %s)", o.kind, o.tn, a)
}

func c12TypeNames(sc schemaSpec) []string {
	var ns []string
	for _, t := range sc.types {
		ns = append(ns, t.name)
	}
	return append(ns, "loose", "bare")
}

func c12RandOp(r *rng, sc schemaSpec) c12Op {
	names := c12TypeNames(sc)
	switch r.intn(15) {
	case 12:
		// a collection of one of the schema's types, built from what the schema hands out
		return c12Op{kind: "collection", tn: pick(r, names), arg: strconv.Itoa(r.intn(1000))}
	case 14:
		// the structure a new resource reports is edited by its owner
		var structBacked []string
		for _, n := range names {
			if sc.wrapped[n] {
				structBacked = append(structBacked, n)
			}
		}
		if len(structBacked) == 0 {
			return c12Op{kind: "rels"}
		}
		// (struct-backed types only: a soft resource's type shares its maps with the schema's by design)
		return c12Op{kind: "edit-result", tn: pick(r, structBacked), arg: strconv.Itoa(r.intn(1000))}
	case 13:
		// resources of two of the schema's types added to a collection before it is given a type
		return c12Op{kind: "collection-untyped", tn: pick(r, names), arg: pick(r, names)}
	case 0, 1:
		return c12Op{kind: "url", arg: randRawURL(r, r.chance(1, 8))}
	case 2, 3:
		tn := pick(r, names[:len(names)-2])
		p := genResourcePayload(r, sc, tn)
		if r.chance(1, 4) {
			mutatePayload(r, p)
		}
		doc := jObj().set("data", p)
		if r.chance(1, 3) {
			doc = jObj().set("data", jArr(p, genResourcePayload(r, sc, tn)))
		}
		return c12Op{kind: "doc", arg: doc.text(), tn: tn}
	case 4, 5:
		tn := pick(r, names[:len(names)-2])
		p := genResourcePayload(r, sc, tn)
		if r.chance(1, 4) {
			mutatePayload(r, p)
		}
		return c12Op{kind: "partial", arg: p.text(), tn: tn}
	case 6:
		return c12Op{kind: "new", tn: pick(r, names), arg: strconv.Itoa(r.intn(1000))}
	case 7:
		return c12Op{kind: "marshal", tn: pick(r, names), arg: strconv.Itoa(r.intn(1000))}
	case 8:
		return c12Op{kind: "has", arg: pick(r, append(names, "zz", ""))}
	case 9:
		return c12Op{kind: "get", arg: pick(r, append(names, "zz", ""))}
	case 10:
		return c12Op{kind: "check"}
	default:
		return c12Op{kind: "rels"}
	}
}

// run one operation against the shared schema; the result is rendered as text
func c12Run(s *jsonapi.Schema, sc schemaSpec, o c12Op) (out string) {
	defer func() {
		if p := recover(); p != nil {
			out = "panic: " + fmt.Sprint(p)
		}
	}()
	fill := func(res jsonapi.Resource, tn string, salt string) {
		res.Set("id", "id"+salt)
		if ts := sc.spec(tn); ts != nil {
			for _, f := range ts.fields {
				switch {
				case f.rel && f.toOne:
					res.Set(f.name, "one"+salt)
				case f.rel:
					res.Set(f.name, []string{"b" + salt, "a" + salt})
				case f.code == 1 && !f.nullable:
					res.Set(f.name, "s"+salt)
				}
			}
		}
	}
	switch o.kind {
	case "url":
		u, err := jsonapi.NewURLFromRaw(s, o.arg)
		if err != nil {
			return "err " + err.Error()
		}
		return oURL(u)
	case "doc":
		d, err := jsonapi.UnmarshalDocument([]byte(o.arg), s)
		if err != nil {
			return "err " + err.Error()
		}
		out := oUDoc(d)
		// echo: the document just received is marshaled back by the same goroutine
		var u *jsonapi.URL
		switch x := d.Data.(type) {
		case jsonapi.Resource:
			u, _ = jsonapi.NewURLFromRaw(s, "/"+x.GetType().Name+"/"+url.PathEscape(x.Get("id").(string)))
		case jsonapi.Collection:
			if x.Len() > 0 {
				u, _ = jsonapi.NewURLFromRaw(s, "/"+x.At(0).GetType().Name)
			}
		}
		if u != nil {
			d.PrePath = "https://h"
			if b, err := jsonapi.MarshalDocument(d, u); err == nil {
				out += " echo " + string(b)
			} else {
				out += " echo-err"
			}
		}
		return out
	case "partial":
		p, err := jsonapi.UnmarshalPartialResource([]byte(o.arg), s)
		if err != nil {
			return "err " + err.Error()
		}
		return oPartial(p)
	case "new":
		typ := s.GetType(o.tn)
		res := typ.New()
		fill(res, o.tn, o.arg)
		return oFullResource(res)
	case "marshal":
		typ := s.GetType(o.tn)
		res := typ.New()
		fill(res, o.tn, o.arg)
		u, err := jsonapi.NewURLFromRaw(s, "/"+o.tn+"/id"+o.arg)
		if err != nil {
			return "err " + err.Error()
		}
		doc := &jsonapi.Document{Data: res, PrePath: "https://h"}
		b, err := jsonapi.MarshalDocument(doc, u)
		if err != nil {
			return "err " + err.Error()
		}
		return string(b)
	case "collection":
		typ := s.GetType(o.tn)
		col := &jsonapi.SoftCollection{}
		col.SetType(&typ)
		for i := 0; i < 3; i++ {
			res := typ.New()
			fill(res, o.tn, o.arg+strconv.Itoa(i))
			col.Add(res)
		}
		var it []string
		for i := 0; i < col.Len(); i++ {
			it = append(it, oFullResource(col.At(i)))
		}
		return strings.Join(it, " ")
	case "edit-result":
		typ := s.GetType(o.tn)
		res := typ.New()
		rt := res.GetType()
		_ = rt.AddAttr(jsonapi.Attr{Name: "added-by-" + o.arg, Type: jsonapi.AttrTypeInt})
		for n := range rt.Rels {
			rt.RemoveRel(n)
			break
		}
		am := res.Attrs()
		for n := range am {
			delete(am, n)
		}
		again := s.GetType(o.tn)
		return oStruct(again.New())
	case "collection-untyped":
		col := &jsonapi.SoftCollection{}
		var it []string
		for i, tn := range []string{o.tn, o.arg} {
			typ := s.GetType(tn)
			res := typ.New()
			fill(res, tn, strconv.Itoa(i))
			col.Add(res)
		}
		typ := s.GetType(o.tn)
		col.SetType(&typ)
		for i := 0; i < col.Len(); i++ {
			it = append(it, oFullResource(col.At(i)))
		}
		return strings.Join(it, " ")
	case "has":
		return fmt.Sprint(s.HasType(o.arg))
	case "get":
		return oType(s.GetType(o.arg))
	case "check":
		var es []string
		for _, e := range s.Check() {
			es = append(es, e.Error())
		}
		sort.Strings(es)
		return strings.Join(es, "|")
	default:
		var rs []string
		for _, r := range s.Rels() {
			rs = append(rs, oRel(r))
		}
		return strings.Join(rs, " ")
	}
}

// ---------- the concurrent body shared by the racer child and the in-process runs ----------

// c12Concurrent runs the per-goroutine operation lists at once, rounds times,
// and reports results that differ from the ones each operation gave alone.
func c12Concurrent(s1 *jsonapi.Schema, s *jsonapi.Schema, sc schemaSpec, threads [][]c12Op, rounds int) (problems []string) {
	// which of several errors is reported depends on Go's map iteration
	// order, not on sharing: failures are compared as failures
	norm := func(x string) string {
		if strings.HasPrefix(x, "err ") || strings.HasPrefix(x, "panic: ") {
			return "fail"
		}
		return x
	}
	alone := make([][]string, len(threads))
	for i, ops := range threads {
		for _, o := range ops {
			alone[i] = append(alone[i], norm(c12Run(s1, sc, o)))
		}
	}
	snap := snapSchema(s)
	var mu sync.Mutex
	for round := 0; round < rounds; round++ {
		start := make(chan struct{})
		var wg sync.WaitGroup
		for i := range threads {
			wg.Add(1)
			go func(i int) {
				defer wg.Done()
				<-start
				for j, o := range threads[i] {
					if got := norm(c12Run(s, sc, o)); got != alone[i][j] {
						mu.Lock()
						if len(problems) < 5 {
							problems = append(problems, fmt.Sprintf("RESULT-DIFFERS goroutine %d %s: alone %.200q, shared %.200q", i, o, alone[i][j], got))
						}
						mu.Unlock()
					}
				}
			}(i)
		}
		close(start)
		wg.Wait()
	}
	if d := snap.diff(s); d != "" {
		problems = append(problems, "SCHEMA-CHANGED "+d)
	}
	return problems
}

func c12Plan(seed uint64, goroutines, opsEach int) (schemaSpec, [][]c12Op) {
	r := newRng(seed)
	sc := c12SchemaSpec(r)
	threads := make([][]c12Op, goroutines)
	for i := range threads {
		for j := 0; j < opsEach; j++ {
			threads[i] = append(threads[i], c12RandOp(r, sc))
		}
	}
	return sc, threads
}

// cmdRacer is the child: verifharness racer <seed> <goroutines> <opsEach> <rounds>
func cmdRacer(args []string) int {
	if len(args) != 4 {
		return 2
	}
	seed, _ := strconv.ParseUint(args[0], 10, 64)
	g, _ := strconv.Atoi(args[1])
	n, _ := strconv.Atoi(args[2])
	rounds, _ := strconv.Atoi(args[3])
	sc, threads := c12Plan(seed, g, n)
	// the results "alone" come from one instance of the schema, the goroutines
	// share a second, untouched one (first calls happen under contention)
	probs := c12Concurrent(c12Build(sc), c12Build(sc), sc, threads, rounds)
	for _, p := range probs {
		fmt.Println(p)
	}
	if len(probs) > 0 {
		return 1
	}
	fmt.Println("RACER-OK")
	return 0
}

// ---------- cases ----------

func c12Threads(c *ctx, sc schemaSpec, k int, atOnce bool) {
	qnames := append(c12TypeNames(sc), "zz", "")
	threads := make([][]c12Op, k)
	var gth []string
	total := 0
	for i := range threads {
		var g []string
		for n := 1 + c.r.intn(4); n > 0; n-- {
			var o c12Op
			switch c.r.intn(6) {
			case 0, 1:
				o = c12Op{kind: "has", arg: pick(c.r, qnames)}
				g = append(g, "(QHas "+gStr(o.arg)+")")
			case 2, 3:
				o = c12Op{kind: "get", arg: pick(c.r, qnames)}
				g = append(g, "(QGet "+gStr(o.arg)+")")
			case 4:
				o = c12Op{kind: "check"}
				g = append(g, "QCheck")
			default:
				o = c12Op{kind: "rels"}
				g = append(g, "QRels")
			}
			threads[i] = append(threads[i], o)
			total++
		}
		gth = append(gth, gList(g))
	}
	// a schedule for the model: a random interleaving that lets every thread finish
	var sched []int
	for i, ops := range threads {
		for range ops {
			sched = append(sched, i)
		}
	}
	for i := len(sched) - 1; i > 0; i-- {
		j := c.r.intn(i + 1)
		sched[i], sched[j] = sched[j], sched[i]
	}
	var gs []string
	for _, t := range sched {
		gs = append(gs, gZ(t))
	}
	s := c12Build(sc)
	snap := snapSchema(s)
	res := make([][]string, k)
	var key, detail string
	start := make(chan struct{})
	var wg sync.WaitGroup
	for i := range threads {
		wg.Add(1)
		body := func(i int) {
			defer wg.Done()
			if atOnce {
				<-start
			}
			for _, o := range threads[i] {
				var ob string
				switch o.kind {
				case "has":
					ob = oB(s.HasType(o.arg))
				case "get":
					ob = oType(s.GetType(o.arg))
				case "check":
					ob = oZ(len(s.Check()))
				default:
					var rs []string
					for _, r := range s.Rels() {
						rs = append(rs, oRel(r))
					}
					ob = oL(rs)
				}
				res[i] = append(res[i], ob)
			}
		}
		// when a child already met a race or a runtime fatal error the
		// goroutines of this process run one after the other: a fatal error
		// here would take the harness down with it
		if atOnce {
			go body(i)
		} else {
			body(i)
		}
	}
	close(start)
	wg.Wait()
	if d := snap.diff(s); d != "" {
		key, detail = "schema-changed-by-query", d
	}
	var per []string
	for i := range res {
		per = append(per, oL(res[i]))
	}
	c.count(fmt.Sprintf("threads=%d", k))
	kc := c.add("threads", fmt.Sprintf("%d goroutines, %d queries", k, total), fmt.Sprintf("k=%d ops=%d", k, min(total/8*8, 40)), false,
		fmt.Sprintf("(run_c12 %s %s %s)", c12Gallina(sc), gList(gth), gList(gs)),
		oL([]string{oL(per), oSchema(s), oZ(0)}), key, detail)
	kc.Replay = "threads"
}

func c12Snapshot(c *ctx, sc schemaSpec, o c12Op) {
	s := c12Build(sc)
	snap := snapSchema(s)
	out := c12Run(s, sc, o)
	var key, detail string
	if d := snap.diff(s); d != "" {
		key, detail = "schema-changed-by-"+o.kind, d+" after "+o.String()
	}
	cls := "ok"
	if strings.HasPrefix(out, "err ") {
		cls = "err"
	} else if strings.HasPrefix(out, "panic: ") {
		cls = "panic"
	}
	c.count("snapshot " + o.kind + " " + cls)
	kc := c.add("snapshot", o.String(), o.kind+" "+cls, false,
		fmt.Sprintf("(run_c12 %s [] [])", c12Gallina(sc)), oL([]string{oL(nil), oSchema(s), oZ(0)}), key, detail)
	kc.Replay = "snapshot"
}

// harnessDir finds /verif/harness from the running binary (/verif/work/bin/verifharness).
func harnessDir() string {
	if d := os.Getenv("VERIF_HARNESS_DIR"); d != "" {
		return d
	}
	exe, _ := os.Executable()
	return filepath.Join(filepath.Dir(exe), "..", "..", "harness")
}

func c12BuildRaceBinary() (string, error) {
	exe, _ := os.Executable()
	out := exe + "-race"
	cmd := exec.Command("go", "build", "-race", "-tags", "verif", "-o", out, ".")
	cmd.Dir = harnessDir()
	cmd.Env = append(os.Environ(), "CGO_ENABLED=1")
	b, err := cmd.CombinedOutput()
	if err != nil {
		return "", fmt.Errorf("go build -race: %v\n%s", err, b)
	}
	return out, nil
}

func c12RaceRun(c *ctx, bin string, race bool, seed uint64, g, n, rounds int) {
	cmd := exec.Command(bin, "racer", fmt.Sprint(seed), fmt.Sprint(g), fmt.Sprint(n), fmt.Sprint(rounds))
	cmd.Env = append(os.Environ(), "GORACE=exitcode=66 halt_on_error=0", "GOMAXPROCS=16")
	var so, se bytes.Buffer
	cmd.Stdout, cmd.Stderr = &so, &se
	err := cmd.Run()
	var key, detail string
	ok := err == nil && strings.Contains(so.String(), "RACER-OK")
	first := func(s string, n int) string {
		ls := strings.Split(s, "\n")
		if len(ls) > n {
			ls = ls[:n]
		}
		return strings.Join(ls, "\n")
	}
	switch {
	case strings.Contains(se.String(), "WARNING: DATA RACE"):
		key, detail = "data-race", first(se.String()[strings.Index(se.String(), "WARNING: DATA RACE"):], 14)
	case strings.Contains(se.String(), "fatal error:"):
		key, detail = "runtime-fatal-error", first(se.String()[strings.Index(se.String(), "fatal error:"):], 6)
	case strings.Contains(so.String(), "SCHEMA-CHANGED"):
		key, detail = "schema-changed-under-load", first(so.String(), 3)
	case strings.Contains(so.String(), "RESULT-DIFFERS"):
		key, detail = "result-differs-under-load", first(so.String(), 3)
	case !ok:
		key, detail = "racer-failed", fmt.Sprintf("%v\n%s\n%s", err, first(so.String(), 5), first(se.String(), 10))
	}
	kind := "plain"
	if race {
		kind = "race-detector"
	}
	c.count(fmt.Sprintf("%s goroutines=%d", kind, g))
	kc := c.add("race", fmt.Sprintf("%s racer seed=%d goroutines=%d ops=%d rounds=%d", kind, seed, g, n, rounds),
		fmt.Sprintf("%s g=%d", kind, g), false, "(OB true)", oB(ok), key, detail)
	kc.Replay = fmt.Sprintf("%s racer %d %d %d %d", filepath.Base(bin), seed, g, n, rounds)
}

func runC12(c *ctx) {
	nThreads, nSnap, nRace := 60, 400, 6
	if c.thorough() {
		nThreads, nSnap, nRace = 600, 6000, 40
	}
	raceBin, err := c12BuildRaceBinary()
	if err != nil {
		fmt.Fprintln(os.Stderr, err)
		os.Exit(2)
	}
	exe, _ := os.Executable()
	gs := []int{2, 3, 4, 8, 12, 16}
	var wg sync.WaitGroup
	sem := make(chan struct{}, 4)
	type job struct {
		bin        string
		race       bool
		seed       uint64
		g, n, rnds int
	}
	var jobs []job
	for i := 0; i < nRace; i++ {
		g := gs[i%len(gs)]
		jobs = append(jobs, job{raceBin, true, c.r.next(), g, 12, 6})
		if i%2 == 0 {
			jobs = append(jobs, job{exe, false, c.r.next(), g, 12, 30})
		}
	}
	// the children run in parallel; their cases are recorded in order afterwards
	subs := make([]*ctx, len(jobs))
	for i, j := range jobs {
		wg.Add(1)
		sem <- struct{}{}
		go func(i int, j job) {
			defer wg.Done()
			defer func() { <-sem }()
			sub := &ctx{prop: c.prop, tier: c.tier, counts: map[string]int{}}
			c12RaceRun(sub, j.bin, j.race, j.seed, j.g, j.n, j.rnds)
			subs[i] = sub
		}(i, j)
	}
	wg.Wait()
	clean := true
	for _, sub := range subs {
		for _, cr := range sub.cases {
			if cr.FailKey != "" {
				clean = false
			}
		}
		c.merge(sub)
	}
	for i := 0; i < nThreads; i++ {
		c12Threads(c, c12SchemaSpec(c.r), 2+c.r.intn(15), clean)
	}
	for i := 0; i < nSnap; i++ {
		sc := c12SchemaSpec(c.r)
		c12Snapshot(c, sc, c12RandOp(c.r, sc))
	}
	// every kind on the bare type at least once
	{
		sc := c12SchemaSpec(c.r)
		for _, k := range []string{"new", "marshal"} {
			c12Snapshot(c, sc, c12Op{kind: k, tn: "bare", arg: "1"})
		}
		c12Snapshot(c, sc, c12Op{kind: "doc", arg: `{"data":{"type":"bare","id":"1"}}`, tn: "bare"})
		c12Snapshot(c, sc, c12Op{kind: "partial", arg: `{"type":"bare","id":"1"}`, tn: "bare"})
		c12Snapshot(c, sc, c12Op{kind: "url", arg: "/bare/1?include=x"})
		// ... and on the hand-written type
		loosePayload := `{"type":"loose","id":"1","attributes":{"title":"x"},"relationships":{"r":{"data":{"type":"other","id":"o1"}},"rs":{"data":[{"type":"other","id":"o2"}]}}}`
		for _, k := range []string{"new", "marshal"} {
			c12Snapshot(c, sc, c12Op{kind: k, tn: "loose", arg: "1"})
		}
		c12Snapshot(c, sc, c12Op{kind: "doc", arg: `{"data":` + loosePayload + `}`, tn: "loose"})
		c12Snapshot(c, sc, c12Op{kind: "partial", arg: loosePayload, tn: "loose"})
		c12Snapshot(c, sc, c12Op{kind: "url", arg: "/loose/1/r"})
	}
}

func init() {
	register("C12", []string{"Model.GoTime", "Gen.TypeGo", "Model.Schema", "Model.C14", "Model.C15", "Model.C16", "Model.Shared", "Model.C12"}, runC12)
}
