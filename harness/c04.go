package main

import (
	"fmt"
	"reflect"
	"sort"
	"strings"

	"github.com/mfcochauxlaberge/jsonapi"
)

func setOf(xs []string) map[string]bool {
	m := map[string]bool{}
	for _, x := range xs {
		m[x] = true
	}
	return m
}

// c04Object checks one resource object against its source resource.
func c04Object(d docSpec, o *jnode, src jsonapi.Resource) string {
	tn := src.GetType().Name
	t := d.sc.spec(tn)
	sel := setOf(d.fields[tn])
	want := setOf(d.relData[tn])
	wantAttrs, wantRels := map[string]bool{}, map[string]bool{}
	for _, f := range t.fields {
		if sel[f.name] {
			if f.rel {
				wantRels[f.name] = true
			} else {
				wantAttrs[f.name] = true
			}
		}
	}
	gotAttrs, gotRels := map[string]bool{}, map[string]bool{}
	if a := member(o, "attributes"); a != nil {
		for _, k := range a.keys {
			gotAttrs[k] = true
		}
	}
	rels := member(o, "relationships")
	if rels != nil {
		for _, k := range rels.keys {
			gotRels[k] = true
		}
	}
	if !reflect.DeepEqual(wantAttrs, gotAttrs) {
		return fmt.Sprintf("%s: attributes present %v, selected %v", tn, keysOf(gotAttrs), keysOf(wantAttrs))
	}
	if !reflect.DeepEqual(wantRels, gotRels) {
		return fmt.Sprintf("%s: relationships present %v, selected %v", tn, keysOf(gotRels), keysOf(wantRels))
	}
	for _, f := range t.fields {
		if !f.rel || !gotRels[f.name] {
			continue
		}
		data := member(member(rels, f.name), "data")
		if (data != nil) != want[f.name] {
			return fmt.Sprintf("%s.%s: data member present=%v, requested=%v", tn, f.name, data != nil, want[f.name])
		}
		if data == nil {
			continue
		}
		if f.toOne {
			id := src.Get(f.name).(string)
			if id == "" {
				if data.kind != "null" {
					return fmt.Sprintf("%s.%s: empty to-one is not null", tn, f.name)
				}
			} else if !isIdentifierObj(data) || member(data, "id").s != id || member(data, "type").s != f.target {
				return fmt.Sprintf("%s.%s: data %s, expected %q of %q", tn, f.name, data.text(), id, f.target)
			}
		} else {
			ids := append([]string{}, src.Get(f.name).([]string)...)
			if data.kind != "arr" {
				return fmt.Sprintf("%s.%s: to-many data is not an array", tn, f.name)
			}
			var got []string
			for _, x := range data.arr {
				if !isIdentifierObj(x) || member(x, "type").s != f.target {
					return fmt.Sprintf("%s.%s: ill-typed identifier %s", tn, f.name, x.text())
				}
				got = append(got, member(x, "id").s)
			}
			sort.Strings(ids)
			sort.Strings(got)
			if len(ids)+len(got) > 0 && !reflect.DeepEqual(ids, got) {
				return fmt.Sprintf("%s.%s: data lists %q, related IDs are %q", tn, f.name, got, ids)
			}
		}
	}
	return ""
}

func c04Case(c *ctx, d docSpec, how string) {
	env := d.env()
	var obs, key, detail, self string
	p, pv := guard(func() {
		doc, u := d.build()
		self = doc.PrePath + u.String()
		var srcData, srcInc []jsonapi.Resource
		for _, rs := range d.data {
			srcData = append(srcData, d.buildRes(rs))
		}
		for _, rs := range d.included {
			srcInc = append(srcInc, d.buildRes(rs))
		}
		out, err := jsonapi.MarshalDocument(doc, u)
		if err != nil {
			obs = oC("fail")
			return
		}
		tree := parseJSON(out)
		env.addTree(tree)
		obs = oOk(tree.obs())
		data := member(tree, "data")
		var objs []*jnode
		if data != nil && data.kind == "obj" {
			objs = []*jnode{data}
		} else if data != nil && data.kind == "arr" {
			objs = data.arr
		}
		if len(d.data) > 0 && len(d.errors) == 0 {
			if len(objs) != len(srcData) {
				key, detail = "resource-objects-count", fmt.Sprintf("%d objects for %d resources", len(objs), len(srcData))
				return
			}
			for i := range objs {
				if m := c04Object(d, objs[i], srcData[i]); m != "" {
					key, detail = "fieldset-not-honoured", fmt.Sprintf("data[%d]: %s", i, m)
					return
				}
			}
		}
		if inc := member(tree, "included"); inc != nil {
			sort.SliceStable(srcInc, func(i, j int) bool { return srcInc[i].Get("id").(string) < srcInc[j].Get("id").(string) })
			if len(inc.arr) != len(srcInc) {
				key, detail = "resource-objects-count", "included"
				return
			}
			for i := range inc.arr {
				if m := c04Object(d, inc.arr[i], srcInc[i]); m != "" {
					key, detail = "fieldset-not-honoured", fmt.Sprintf("included[%d]: %s", i, m)
					return
				}
			}
		}
	})
	if p {
		obs = oPanic()
		key, detail = "marshal-panics", fmt.Sprint(pv)
	}
	nsel := 0
	for _, v := range d.fields {
		nsel += len(v)
	}
	feature := fmt.Sprintf("%s n=%d inc=%d sel=%d reldata=%d", d.dataKind, min(len(d.data), 4), min(len(d.included), 3), min(nsel, 12), len(d.relData))
	k := c.add("doc-fields", d.desc(), feature, len(d.data)+len(d.included) == 0,
		fmt.Sprintf("(run_doc_marshal %s %s %s %s)", env.gallina(), d.gallina(), gFieldSel(d.fields), gStr(self)), obs, key, detail)
	k.Replay = how
}

func runC04(c *ctx) {
	// every subset of a 4-field type's fields as the selection, every subset of
	// its relationships as the relationship-data request
	t := typeSpec{name: "small", fields: []fieldSpec{{name: "a", code: 1}, {name: "b", code: 3, nullable: true},
		{rel: true, name: "one", toOne: true, target: "other"}, {rel: true, name: "many", target: "other"}}}
	other := typeSpec{name: "other", fields: []fieldSpec{{name: "title", code: 1}}}
	for _, wrapped := range []bool{false, true} {
		sc := schemaSpec{types: []typeSpec{t, other}, wrapped: map[string]bool{"small": wrapped}}
		for mask := 0; mask < 16; mask++ {
			for rmask := 0; rmask < 4; rmask++ {
				var sel, rd []string
				for i, f := range t.fields {
					if mask&(1<<i) != 0 {
						sel = append(sel, f.name)
					}
				}
				if rmask&1 != 0 {
					rd = append(rd, "one")
				}
				if rmask&2 != 0 {
					rd = append(rd, "many")
				}
				if sel == nil {
					sel = []string{}
				}
				d := docSpec{sc: sc, dataKind: "resources", prepath: "/p", urlFrags: []string{"small"},
					fields: map[string][]string{"small": sel}, relData: map[string][]string{"small": rd}}
				d.data = []resSpec{
					{tn: "small", wrapped: wrapped, ops: []setOp{{"id", "1"}, {"a", "x"}, {"one", "7"}, {"many", []string{"b", "a"}}}},
					{tn: "small", wrapped: wrapped, ops: []setOp{{"id", "2"}, {"one", ""}, {"many", []string{}}}},
				}
				d.included = []resSpec{{tn: "other", wrapped: false, ops: []setOp{{"id", "o"}, {"title", "t"}}}}
				c04Case(c, d, "exhaustive-subsets")
			}
		}
	}
	// fixed cases: relationships that do not name their owning type, names that contain
	// a comma, a mixed collection whose later member's type has no selection entry
	{
		art := typeSpec{name: "articles", noFrom: true, fields: []fieldSpec{{name: "title", code: 1}, {name: "body", code: 1},
			{rel: true, name: "author", toOne: true, target: "people"}, {rel: true, name: "tags", target: "people"}}}
		ppl := typeSpec{name: "people", fields: []fieldSpec{{name: "first", code: 1}, {name: "last", code: 1}, {name: "last,first", code: 1},
			{rel: true, name: "boss", toOne: true, target: "people"}}}
		com := typeSpec{name: "comments", fromOther: true, fields: []fieldSpec{{name: "body", code: 1}, {name: "ip", code: 1},
			{rel: true, name: "author", toOne: true, target: "people"}}}
		sc := schemaSpec{types: []typeSpec{art, ppl, com}, wrapped: map[string]bool{}}
		a1 := resSpec{tn: "articles", ops: []setOp{{"id", "a1"}, {"title", "t"}, {"body", "b"}, {"author", "p1"}, {"tags", []string{"t2", "t1"}}}}
		p1 := resSpec{tn: "people", ops: []setOp{{"id", "p1"}, {"first", "f"}, {"last", "l"}, {"last,first", "lf"}, {"boss", "p2"}}}
		c1 := resSpec{tn: "comments", ops: []setOp{{"id", "c1"}, {"body", "cb"}, {"ip", "::1"}, {"author", "p1"}}}
		allRD := map[string][]string{"articles": {"author", "tags"}, "people": {"boss"}, "comments": {"author"}}
		for _, sel := range []map[string][]string{
			{"articles": {"title", "author", "tags"}, "people": {"last,first"}},
			{"articles": {"body", "author"}, "people": {"first", "x,boss"}},
			{"articles": {"body", "author"}},
			{"comments": {"ip"}, "people": {}},
			{"articles": {"tags"}, "people": {"first", "last"}, "comments": {"author", "body"}},
			{"articles": {"author", "body", "title", "ip"}, "comments": {"author", "body", "title", "ip"}, "people": {"boss"}},
		} {
			for _, order := range [][]resSpec{{a1, c1}, {c1, a1}, {a1, c1, a1}} {
				for _, rd := range []map[string][]string{allRD, {"articles": {"tags"}, "comments": {"author"}}, {"articles": {"author"}, "comments": {}}} {
					d := docSpec{sc: sc, dataKind: "resources", prepath: "/p", urlFrags: []string{"articles"}, fields: sel, relData: rd,
						data: order, included: []resSpec{p1}}
					c04Case(c, d, "fixed")
				}
			}
			d := docSpec{sc: sc, dataKind: "resource", prepath: "", urlFrags: []string{"articles", "a1"}, fields: sel, relData: allRD,
				data: []resSpec{a1}, included: []resSpec{p1, c1}}
			c04Case(c, d, "fixed")
		}
		// a URL without any selection (nil map): nothing is exposed
		c04Case(c, docSpec{sc: sc, dataKind: "resources", prepath: "/p", urlFrags: []string{"articles"}, fields: nil, relData: allRD,
			data: []resSpec{a1, c1}, included: []resSpec{p1}}, "fixed")
		c04Case(c, docSpec{sc: sc, dataKind: "resource", prepath: "/p", urlFrags: []string{"articles", "a1"}, fields: nil, relData: allRD,
			data: []resSpec{a1}, included: []resSpec{p1}}, "fixed")
	}
	n := 200
	if c.thorough() {
		n = 5000
	}
	for i := 0; i < n; i++ {
		d := randDoc(c.r)
		if strings.Contains(d.dataKind, "identifier") {
			continue
		}
		c04Case(c, d, "random")
	}
}

func init() {
	imports := []string{"Model.GoTime", "Gen.TypeGo", "Model.Schema", "Model.Value", "Model.Json", "Model.SoftRes", "Model.Wrapper", "Model.Resource", "Model.Unmarshal", "Model.Document", "Model.C17", "Model.C01", "Model.C02"}
	register("C04", imports, runC04)
}
