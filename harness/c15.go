package main

import (
	"fmt"
	"reflect"

	"github.com/mfcochauxlaberge/jsonapi"
)

// c15Offending counts, from the property text, the relationships that are
// dangling or unreciprocated.
func c15Offending(s *jsonapi.Schema) int {
	find := func(name string) *jsonapi.Type {
		for i := range s.Types {
			if s.Types[i].Name == name {
				return &s.Types[i]
			}
		}
		return nil
	}
	n := 0
	for _, t := range s.Types {
		for _, r := range t.Rels {
			bad := false
			target := find(r.ToType)
			if r.ToType == "" || target == nil {
				bad = true
			}
			if r.ToName != "" {
				if r.FromType != t.Name {
					bad = true
				} else {
					found := false
					if target != nil {
						for _, inv := range target.Rels {
							if inv.ToName == r.FromName && inv.FromName == r.ToName {
								found = true
							}
						}
					}
					if !found {
						bad = true
					}
				}
			}
			if bad {
				n++
			}
		}
	}
	return n
}

func c15Case(c *ctx, ts []jsonapi.Type, how string) {
	s := &jsonapi.Schema{Types: copyTypes(ts)}
	snap := &jsonapi.Schema{Types: copyTypes(ts)}
	var errs []error
	p, pv := guard(func() { errs = s.Check() })
	var obs, key, detail string
	off := c15Offending(snap)
	if p {
		obs = oPanic()
		key, detail = "check-panics", fmt.Sprint(pv)
	} else {
		obs = oZ(len(errs))
		switch {
		case errs == nil:
			// the documented result is a (possibly empty) list
		}
		if off == 0 && len(errs) != 0 {
			key, detail = "check-errors-on-coherent-schema", fmt.Sprintf("%d errors, first: %v", len(errs), errs[0])
		} else if len(errs) < off {
			key, detail = "check-misses-offending-relationship", fmt.Sprintf("%d offending relationships, %d errors", off, len(errs))
		}
		if key == "" && !reflect.DeepEqual(s.Types, snap.Types) {
			key, detail = "check-modifies-schema", "types differ after Check"
		}
	}
	// the same schema reached through edits, with Check consulted on the way, is judged the same
	if key == "" && !p {
		same := func(h *jsonapi.Schema) bool {
			if len(h.Types) != len(snap.Types) {
				return false
			}
			for i := range h.Types {
				if oType(h.Types[i]) != oType(snap.Types[i]) {
					return false
				}
			}
			return true
		}
		for variant := 0; variant < 2 && key == ""; variant++ {
			if ph, pvh := guard(func() {
				h := &jsonapi.Schema{}
				for _, t := range copyTypes(ts) {
					bare := jsonapi.Type{Name: t.Name, Attrs: t.Attrs}
					if variant == 1 {
						bare.Rels = map[string]jsonapi.Rel{}
					} else {
						// one-way relationships come with the type, pairs are added later
						for k, r := range t.Rels {
							if r.ToName == "" && k == r.FromName {
								if bare.Rels == nil {
									bare.Rels = map[string]jsonapi.Rel{}
								}
								bare.Rels[k] = r
							}
						}
					}
					_ = h.AddType(bare)
					_ = h.Check()
				}
				for _, t := range copyTypes(ts) {
					for k, r := range t.Rels {
						if variant == 0 {
							if k == r.FromName {
								if _, have := h.GetType(t.Name).Rels[k]; have {
									// the other end of a pair already brought it
								} else if r.ToName == "" || h.AddTwoWayRel(r) != nil {
									_ = h.AddRel(t.Name, r)
								}
							}
						} else if gt := h.GetType(t.Name); gt.Rels != nil {
							gt.Rels[k] = r // the Type value GetType returns shares its maps with the schema
						}
						_ = h.Check()
					}
				}
				if !same(h) {
					return
				}
				if errs2 := h.Check(); len(errs2) != len(errs) {
					key, detail = "check-depends-on-history", fmt.Sprintf("built by edits with Check consulted on the way (variant %d): %d errors, written down: %d", variant, len(errs2), len(errs))
				}
			}); ph {
				key, detail = "check-panics", fmt.Sprint(pvh)
			}
		}
	}
	nrels := 0
	for _, t := range ts {
		nrels += len(t.Rels)
	}
	c.count(fmt.Sprintf("offending=%d", min(off, 5)))
	feature := fmt.Sprintf("types=%d rels=%d off=%d errs=%d", len(ts), nrels, off, len(errs))
	k := c.add("check", gSchema(snap), feature, nrels == 0, "(run_check "+gSchema(snap)+")", obs, key, detail)
	k.Replay = how
}

func min(a, b int) int {
	if a < b {
		return a
	}
	return b
}

// mutateTypes damages one aspect of a coherent schema.
func mutateTypes(r *rng, ts []jsonapi.Type, names []string) {
	if len(ts) == 0 {
		return
	}
	t := &ts[r.intn(len(ts))]
	switch r.intn(7) {
	case 0:
		t.Name = pick(r, names)
	case 1:
		for k, rel := range t.Rels {
			rel.ToType = pick(r, names)
			t.Rels[k] = rel
			break
		}
	case 2:
		for k, rel := range t.Rels {
			rel.ToName = pick(r, names)
			t.Rels[k] = rel
			break
		}
	case 3:
		for k, rel := range t.Rels {
			rel.FromType = pick(r, names)
			t.Rels[k] = rel
			break
		}
	case 4:
		for k := range t.Rels {
			delete(t.Rels, k)
			break
		}
	case 5:
		for k, rel := range t.Rels {
			rel.FromName = pick(r, names)
			t.Rels[k] = rel
			break
		}
	case 6:
		// duplicate type name
		ts[r.intn(len(ts))].Name = t.Name
	}
}

func runC15(c *ctx) {
	abc := []string{"a", "b", ""}
	// exhaustive: 2 types named a,b; one relationship each drawn from the full space over {a,b,""} (names) -- sampled grid
	// one type, one relationship: every combination of the four names
	for _, ft := range abc {
		for _, fn := range abc {
			for _, tt := range abc {
				for _, tn := range abc {
					r := jsonapi.Rel{FromType: ft, FromName: fn, ToType: tt, ToName: tn}
					c15Case(c, []jsonapi.Type{{Name: "a", Rels: map[string]jsonapi.Rel{"k": r}}}, "exhaustive-1")
					for _, ft2 := range abc {
						for _, fn2 := range abc {
							for _, tn2 := range abc {
								r2 := jsonapi.Rel{FromType: ft2, FromName: fn2, ToType: "a", ToName: tn2}
								c15Case(c, []jsonapi.Type{
									{Name: "a", Rels: map[string]jsonapi.Rel{"k": r}},
									{Name: "b", Rels: map[string]jsonapi.Rel{"k": r2}},
								}, "exhaustive-2")
							}
						}
					}
				}
			}
		}
	}
	// a history: types added one by one with Check consulted in between (the Types slice grows and
	// moves), then a pair added to types that had no relationships yet; judged like the same schema
	// written down (oracle only)
	for _, extra := range []int{0, 1, 2, 5} {
		var key, detail string
		p, pv := guard(func() {
			h := &jsonapi.Schema{}
			_ = h.AddType(jsonapi.Type{Name: "posts", Rels: map[string]jsonapi.Rel{"editor": {FromType: "posts", FromName: "editor", ToOne: true, ToType: "users"}}})
			_ = h.AddType(jsonapi.Type{Name: "users"})
			_ = h.Check()
			for i := 0; i < extra; i++ {
				_ = h.AddType(jsonapi.Type{Name: fmt.Sprint("extra", i)})
				_ = h.Check()
			}
			pair := jsonapi.Rel{FromType: "posts", FromName: "author", ToOne: true, ToType: "users", ToName: "posts"}
			if err := h.AddTwoWayRel(pair); err != nil {
				key, detail = "check-depends-on-history", "AddTwoWayRel refused: "+err.Error()
				return
			}
			got := h.Check()
			fresh := (&jsonapi.Schema{Types: copyTypes(h.Types)}).Check()
			if len(got) != len(fresh) {
				key, detail = "check-depends-on-history", fmt.Sprintf("after AddType x%d with Check in between and AddTwoWayRel: %d errors (%v), the same schema written down: %d", 2+extra, len(got), got, len(fresh))
			}
		})
		if p {
			key, detail = "check-panics", fmt.Sprint(pv)
		}
		k := c.add("check-history", fmt.Sprintf("posts{editor}, users, %d more types, Check between, then posts.author <-> users.posts", extra), "check-history", false, oL(nil), oL(nil), key, detail)
		k.Replay = "check-history"
	}
	// the three-type names-only cycle (observation O15): accepted by Check and by the property text
	c15Case(c, []jsonapi.Type{
		{Name: "t1", Rels: map[string]jsonapi.Rel{"a": {FromType: "t1", FromName: "a", ToType: "t2", ToName: "b"}}},
		{Name: "t2", Rels: map[string]jsonapi.Rel{"b": {FromType: "t2", FromName: "b", ToType: "t3", ToName: "a"}}},
		{Name: "t3", Rels: map[string]jsonapi.Rel{"a": {FromType: "t3", FromName: "a", ToType: "t2", ToName: "b"}}},
	}, "O15 cycle")
	n := 1500
	if c.thorough() {
		n = 20000
	}
	for i := 0; i < n; i++ {
		names := c16Names
		if c.r.chance(1, 3) {
			names = c16Long
		}
		switch c.r.intn(3) {
		case 0:
			c15Case(c, genCoherentTypes(c.r, names), "coherent")
		case 1:
			ts := genCoherentTypes(c.r, names)
			for k := 0; k <= c.r.intn(3); k++ {
				mutateTypes(c.r, ts, names)
			}
			c15Case(c, ts, "mutated")
		default:
			c15Case(c, genArbitraryTypes(c.r, names), "arbitrary")
		}
	}
}

func init() {
	register("C15", []string{"Gen.TypeGo", "Model.Schema", "Model.C15"}, runC15)
}
