package main

import (
	"bytes"
	"fmt"
	"reflect"
	"sort"
	"strings"
	"time"

	"github.com/mfcochauxlaberge/jsonapi"
)

// schemaSpec is a schema of soft and struct-backed types.
type schemaSpec struct {
	types   []typeSpec
	wrapped map[string]bool
	literal bool // the Types slice is written directly, in the listed order, instead of through AddType
	derived bool // soft types are copies of a differently named base type that has already been used (New) once
}

func (s schemaSpec) build() *jsonapi.Schema {
	sc := &jsonapi.Schema{}
	for _, t := range s.types {
		if s.wrapped[t.name] {
			typ, err := jsonapi.BuildType(reflect.New(t.structType()).Interface())
			if err != nil {
				panic("BuildType: " + err.Error())
			}
			if s.literal {
				sc.Types = append(sc.Types, typ)
			} else {
				_ = sc.AddType(typ)
			}
		} else {
			st := t.softType()
			if s.derived {
				base := st
				base.Name = "base-of-" + t.name
				_ = base.New()
				st = base.Copy()
				st.Name = t.name
			}
			if s.literal {
				sc.Types = append(sc.Types, st)
			} else {
				_ = sc.AddType(st)
			}
		}
	}
	return sc
}

func (s schemaSpec) gallina() string {
	var ts, ws []string
	for _, t := range s.types {
		ts = append(ts, s.gTypeIn(t))
		if s.wrapped[t.name] {
			ws = append(ws, gPair(gStr(t.name), t.gDesc()))
		}
	}
	return fmt.Sprintf("(mkSch (mkSchema %s) %s)", gList(ts), gList(ws))
}

// gTypeIn prints the type as the schema holds it: built from the struct
// (relationships carry the type's name) or added as a soft type.
func (s schemaSpec) gTypeIn(t typeSpec) string {
	if s.wrapped[t.name] {
		t.noFrom, t.fromOther = false, false
	}
	return t.gType()
}

func (s schemaSpec) spec(name string) *typeSpec {
	for i := range s.types {
		if s.types[i].name == name {
			return &s.types[i]
		}
	}
	return nil
}

func gRelData(m map[string][]string) string {
	ks := make([]string, 0, len(m))
	for k := range m {
		ks = append(ks, k)
	}
	sort.Strings(ks)
	var it []string
	for _, k := range ks {
		it = append(it, gPair(gStr(k), gStrs(m[k])))
	}
	return gList(it)
}

// sameField is the property's notion of "the same value".
func sameField(f fieldSpec, a, b any) bool {
	if f.rel {
		if f.toOne {
			return a == b
		}
		x, _ := a.([]string)
		y, _ := b.([]string)
		sx, sy := map[string]bool{}, map[string]bool{}
		for _, i := range x {
			sx[i] = true
		}
		for _, i := range y {
			sy[i] = true
		}
		return reflect.DeepEqual(sx, sy)
	}
	a, b = canonGo(a), canonGo(b)
	if (a == nil) != (b == nil) {
		return false
	}
	if a == nil {
		return true
	}
	if _, pa, _, ia := deref(a); pa {
		_, pb, _, ib := deref(b)
		if !pb {
			return false
		}
		a, b = ia, ib
	}
	switch x := a.(type) {
	case time.Time:
		y, ok := b.(time.Time)
		return ok && x.Equal(y)
	case []byte:
		y, ok := b.([]byte)
		return ok && bytes.Equal(x, y)
	}
	return reflect.DeepEqual(a, b)
}

func buildRes(t typeSpec, wrapped bool, ops []setOp) (r jsonapi.Resource) {
	if wrapped {
		r = t.newWrapped()
	} else {
		r = t.newSoft()
	}
	for _, o := range ops {
		r.Set(o.key, o.val)
	}
	return r
}

func gNewRes(t typeSpec, wrapped bool) string {
	if wrapped {
		return "(new_wrapped " + t.gDesc() + ")"
	}
	return "(new_soft " + t.gType() + ")"
}

func gOps(ops []setOp) string {
	var gops []string
	for _, o := range ops {
		gops = append(gops, gPair(gStr(o.key), gValue(o.val)))
	}
	return gList(gops)
}

func oResource(r jsonapi.Resource, fields []string) string {
	return oL([]string{oS(r.GetType().Name), dumpRes(r, fields)})
}

// c01Case: build a resource, marshal it with everything selected, unmarshal.
func c01Case(c *ctx, sc schemaSpec, tn string, wrapped bool, ops []setOp, prepath string, how string) {
	t := *sc.spec(tn)
	schema := sc.build()
	fields := t.fieldNames()
	if how != "dictionary" {
		shuffle(c.r, fields) // "all of its fields": in whatever order the caller lists them
	}
	var rels []string
	for _, f := range t.fields {
		if f.rel {
			rels = append(rels, f.name)
		}
	}
	relData := map[string][]string{tn: rels}
	env := newStdEnv()
	for _, o := range ops {
		env.addValue(o.val)
	}
	var obs, key, detail string
	p, pv := guard(func() {
		r := buildRes(t, wrapped, ops)
		before := map[string]any{}
		for _, f := range append([]string{"id"}, fields...) {
			before[f] = r.Get(f)
		}
		out := jsonapi.MarshalResource(r, prepath, append([]string{}, fields...), relData)
		tree := parseJSON(out)
		if tree == nil {
			obs = oC("invalid-json")
			key, detail = "marshal-output-not-json", string(out)
			return
		}
		env.addTree(tree)
		r2, err := jsonapi.UnmarshalResource(out, schema)
		if err != nil {
			obs = oL([]string{tree.obs(), oC("fail")})
			key, detail = "roundtrip-rejected", fmt.Sprintf("%v on %s", err, out)
			return
		}
		obs = oL([]string{tree.obs(), oOk(oResource(r2, append([]string{"id"}, fields...)))})
		if r2.GetType().Name != tn {
			key, detail = "roundtrip-type-name", r2.GetType().Name
		}
		if r2.Get("id") != before["id"] {
			key, detail = "roundtrip-id", fmt.Sprintf("%q became %q", before["id"], r2.Get("id"))
		}
		for _, f := range t.fields {
			if !sameField(f, before[f.name], r2.Get(f.name)) {
				key, detail = "roundtrip-value-differs", fmt.Sprintf("%s (%s): %s became %s", f.name, jsonapi.GetAttrTypeString(f.code, f.nullable), descValue(before[f.name]), descValue(r2.Get(f.name)))
			}
		}
	})
	if p {
		obs = oPanic()
		key, detail = "roundtrip-panics", fmt.Sprint(pv)
	}
	var descs []string
	for _, o := range ops {
		descs = append(descs, fmt.Sprintf("%s=%s", o.key, descValue(o.val)))
	}
	kinds := map[int]bool{}
	for _, o := range ops {
		if f := t.field(o.key); f != nil && !f.rel {
			kinds[f.code] = true
		}
	}
	feature := fmt.Sprintf("wrapped=%v fields=%d ops=%d kinds=%d", wrapped, len(t.fields), len(ops), len(kinds))
	desc := fmt.Sprintf("type %s wrapped=%v prepath=%q: %s", tn, wrapped, prepath, strings.Join(descs, "; "))
	c.count(fmt.Sprintf("wrapped=%v", wrapped))
	k := c.add("roundtrip", desc, feature, len(ops) == 0,
		fmt.Sprintf("(run_roundtrip %s %s %s %s %s %s %s)", env.gallina(), sc.gallina(), gNewRes(t, wrapped), gOps(ops), gStr(prepath), gStrs(fields), gRelData(relData)),
		obs, key, detail)
	k.Replay = how
}

// c01Collection: resources of two types (soft and struct-backed mixed) marshaled
// through MarshalCollection and read back with UnmarshalCollection.
func c01Collection(c *ctx, sc schemaSpec, members []resSpec, prepath string, how string) {
	schema := sc.build()
	fieldsMap := map[string][]string{}
	relData := map[string][]string{}
	for _, t := range sc.types {
		fs := t.fieldNames()
		shuffle(c.r, fs)
		fieldsMap[t.name] = fs
		var rels []string
		for _, f := range t.fields {
			if f.rel {
				rels = append(rels, f.name)
			}
		}
		relData[t.name] = rels
	}
	env := newStdEnv()
	var gmem, descs []string
	for _, m := range members {
		for _, o := range m.ops {
			env.addValue(o.val)
		}
		gmem = append(gmem, gPair(gNewRes(*sc.spec(m.tn), m.wrapped), gOps(m.ops)))
		descs = append(descs, fmt.Sprintf("%s wrapped=%v", m.tn, m.wrapped))
	}
	var obs, key, detail string
	p, pv := guard(func() {
		col := &jsonapi.Resources{}
		var orig []jsonapi.Resource
		for _, m := range members {
			r := buildRes(*sc.spec(m.tn), m.wrapped, m.ops)
			orig = append(orig, r)
			col.Add(r)
		}
		fm := map[string][]string{}
		for k, v := range fieldsMap {
			fm[k] = append([]string{}, v...)
		}
		out := jsonapi.MarshalCollection(col, prepath, fm, relData)
		tree := parseJSON(out)
		if tree == nil {
			obs = oC("invalid-json")
			key, detail = "marshal-output-not-json", string(out)
			return
		}
		env.addTree(tree)
		back, err := jsonapi.UnmarshalCollection(out, schema)
		if err != nil {
			obs = oL([]string{tree.obs(), oC("fail")})
			key, detail = "roundtrip-rejected", fmt.Sprintf("%v on %s", err, out)
			return
		}
		var it []string
		for i := 0; i < back.Len(); i++ {
			it = append(it, oResource(back.At(i), append([]string{"id"}, fieldsMap[back.At(i).GetType().Name]...)))
		}
		obs = oL([]string{tree.obs(), oOk(oL(it))})
		if back.Len() != len(orig) {
			key, detail = "roundtrip-collection-length", fmt.Sprintf("%d members became %d", len(orig), back.Len())
			return
		}
		for i, r := range orig {
			r2 := back.At(i)
			t := *sc.spec(members[i].tn)
			if r2.GetType().Name != t.name || r2.Get("id") != r.Get("id") {
				key, detail = "roundtrip-type-or-id", fmt.Sprintf("member %d", i)
			}
			for _, f := range t.fields {
				if !sameField(f, r.Get(f.name), r2.Get(f.name)) {
					key, detail = "roundtrip-value-differs", fmt.Sprintf("member %d %s.%s: %s became %s", i, t.name, f.name, descValue(r.Get(f.name)), descValue(r2.Get(f.name)))
				}
			}
		}
	})
	if p {
		obs = oPanic()
		key, detail = "roundtrip-panics", fmt.Sprint(pv)
	}
	var gfm []string
	ks := make([]string, 0, len(fieldsMap))
	for k := range fieldsMap {
		ks = append(ks, k)
	}
	sort.Strings(ks)
	for _, k := range ks {
		gfm = append(gfm, gPair(gStr(k), gStrs(fieldsMap[k])))
	}
	k := c.add("collection", fmt.Sprintf("Resources [%s] prepath=%q", strings.Join(descs, "; "), prepath), fmt.Sprintf("members=%d", len(members)), len(members) == 0,
		fmt.Sprintf("(run_collection_roundtrip %s %s %s %s %s %s)", env.gallina(), sc.gallina(), gList(gmem), gStr(prepath), gList(gfm), gRelData(relData)),
		obs, key, detail)
	k.Replay = how
}

// c01Ops: one value per field, in the property's domain.
func c01Ops(r *rng, t typeSpec, every bool) []setOp {
	ops := []setOp{{"id", pick(r, dictIDs)}}
	for _, f := range t.fields {
		if !every && r.chance(1, 5) {
			continue
		}
		if f.rel {
			if f.toOne {
				ops = append(ops, setOp{f.name, pick(r, dictIDs)})
			} else {
				ids := randIDs(r)
				if ids == nil {
					ids = []string{}
				}
				ops = append(ops, setOp{f.name, ids})
			}
		} else {
			ops = append(ops, setOp{f.name, randValue(r, f.code, f.nullable, false)})
		}
	}
	return ops
}

func runC01(c *ctx) {
	all := allKindsSpec("alltypes", "other")
	other := typeSpec{name: "other"}
	for _, wrapped := range []bool{false, true} {
		sc := schemaSpec{types: []typeSpec{all, other}, wrapped: map[string]bool{"alltypes": wrapped}}
		// every dictionary value of every kind, at least once
		maxLen := 0
		for code := 1; code <= 14; code++ {
			if l := len(dictValues(code)); l > maxLen {
				maxLen = l
			}
		}
		for i := 0; i < maxLen; i++ {
			ops := []setOp{{"id", dictIDs[i%len(dictIDs)]}}
			for _, f := range all.fields {
				if f.rel {
					if f.toOne {
						ops = append(ops, setOp{f.name, dictIDs[(i+3)%len(dictIDs)]})
					} else {
						ops = append(ops, setOp{f.name, append([]string{}, dictIDs[:i%len(dictIDs)]...)})
					}
					continue
				}
				d := dictValues(f.code)
				v := d[i%len(d)]
				if f.nullable {
					if i%5 == 4 {
						ops = append(ops, setOp{f.name, reflect.Zero(goTypeOf(f.code, true)).Interface()})
					} else {
						ops = append(ops, setOp{f.name, ptrTo(v)})
					}
				} else {
					ops = append(ops, setOp{f.name, v})
				}
			}
			c01Case(c, sc, "alltypes", wrapped, ops, pick(c.r, []string{"", "/", "https://example.org", "https://example.org/api/"}), "dictionary")
		}
	}
	n := 120
	if c.thorough() {
		n = 4000
	}
	for i := 0; i < n; i++ {
		// relationships may point to a type the schema does not hold
		t := randTypeSpec(c.r, pick(c.r, []string{"t", "users", "a-b"}), 8, []string{"other", "other", "absent"})
		if c.r.chance(1, 4) {
			t = all
		}
		wrapped := c.r.bool()
		sc := schemaSpec{types: []typeSpec{other, t}, wrapped: map[string]bool{t.name: wrapped}}
		if c.r.chance(1, 3) {
			// a schema written as a literal, its types in no particular order
			sc.literal = true
			sc.types = []typeSpec{t, other}
		}
		sc.derived = c.r.chance(1, 3)
		if t.name != "alltypes" && c.r.chance(1, 3) {
			// another type whose name differs only in case, listed first
			decoy := typeSpec{name: strings.ToUpper(t.name), fields: []fieldSpec{{name: "decoy", code: 1}}}
			sc.types = []typeSpec{decoy, other, t}
			if sc.literal {
				sc.types = []typeSpec{t, other, decoy}
			}
		}
		c01Case(c, sc, t.name, wrapped, c01Ops(c.r, t, c.r.bool()), pick(c.r, []string{"", "/", "http://h", "http://h/p/"}), "random")
	}
	// several relationships of either cardinality, some empty: what one relationship decodes must
	// not leak into another (repeated: the payload's relationships are walked in map order)
	{
		links := typeSpec{name: "links4", fields: []fieldSpec{{name: "title", code: 1},
			{rel: true, name: "author", toOne: true, target: "other"}, {rel: true, name: "editor", toOne: true, target: "other"},
			{rel: true, name: "owner", toOne: true, target: "other"}, {rel: true, name: "reviewer", toOne: true, target: "other"},
			{rel: true, name: "tags", target: "other"}, {rel: true, name: "cats", target: "other"}, {rel: true, name: "refs", target: "other"}}}
		for _, wrapped := range []bool{false, true} {
			sc := schemaSpec{types: []typeSpec{links, other}, wrapped: map[string]bool{"links4": wrapped}}
			for mask := 1; mask < 15; mask += 2 {
				ops := []setOp{{"id", "b1"}, {"title", "t"}}
				for i, rn := range []string{"author", "editor", "owner", "reviewer"} {
					if mask&(1<<i) != 0 {
						ops = append(ops, setOp{rn, fmt.Sprint("p", i)})
					}
				}
				for i, rn := range []string{"tags", "cats", "refs"} {
					if (mask+i)%2 == 0 {
						ops = append(ops, setOp{rn, []string{fmt.Sprint("t", i), "t9"}})
					}
				}
				for k := 0; k < 3; k++ {
					c01Case(c, sc, "links4", wrapped, ops, "/p", "several-relationships")
				}
			}
		}
	}
	// the collection route, members of two types, soft and struct-backed mixed
	for i := 0; i < n/6; i++ {
		t := randTypeSpec(c.r, "t", 6, []string{"other"})
		o2 := typeSpec{name: "other", fields: []fieldSpec{{name: "title", code: 1}, {name: "n", code: 4, nullable: true}, {rel: true, name: "owner", toOne: true, target: "t"}}}
		sc := schemaSpec{types: []typeSpec{o2, t}, wrapped: map[string]bool{"t": c.r.bool(), "other": c.r.bool()}}
		var members []resSpec
		for j := c.r.intn(5); j > 0; j-- {
			tn := pick(c.r, []string{"t", "other"})
			ops := c01Ops(c.r, *sc.spec(tn), c.r.bool())
			ops[0] = setOp{"id", fmt.Sprintf("m%d", j)}
			members = append(members, resSpec{tn: tn, wrapped: sc.wrapped[tn], ops: ops})
		}
		c01Collection(c, sc, members, pick(c.r, []string{"", "/", "http://h/p/"}), "collection")
	}
}

func init() {
	register("C01", []string{"Model.GoTime", "Gen.TypeGo", "Model.Schema", "Model.Value", "Model.Json", "Model.SoftRes", "Model.Wrapper", "Model.Resource", "Model.Unmarshal", "Model.Document", "Model.C17", "Model.C01", "Model.C01Coll"}, runC01)
}
