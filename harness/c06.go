package main

import (
	"bytes"
	"fmt"
	"math/big"
	"regexp"
	"strings"
	"time"
	"unicode/utf16"
	"unicode/utf8"

	"github.com/mfcochauxlaberge/jsonapi"
)

// ---------- independent readers used by the direct oracle ----------

var intLitRe = regexp.MustCompile(`^[+-]?[0-9]+$`)

// kindRange returns the inclusive range of an integer kind.
func kindRange(k int) (lo, hi *big.Int) {
	bits := map[int]uint{2: 64, 3: 8, 4: 16, 5: 32, 6: 64, 7: 64, 8: 8, 9: 16, 10: 32, 11: 64}[k]
	one := big.NewInt(1)
	if k <= 6 {
		hi = new(big.Int).Sub(new(big.Int).Lsh(one, bits-1), one)
		lo = new(big.Int).Neg(new(big.Int).Lsh(one, bits-1))
	} else {
		lo = big.NewInt(0)
		hi = new(big.Int).Sub(new(big.Int).Lsh(one, bits), one)
	}
	return
}

func bigOf(v any) *big.Int {
	switch x := v.(type) {
	case int:
		return big.NewInt(int64(x))
	case int8:
		return big.NewInt(int64(x))
	case int16:
		return big.NewInt(int64(x))
	case int32:
		return big.NewInt(int64(x))
	case int64:
		return big.NewInt(x)
	case uint:
		return new(big.Int).SetUint64(uint64(x))
	case uint8:
		return new(big.Int).SetUint64(uint64(x))
	case uint16:
		return new(big.Int).SetUint64(uint64(x))
	case uint32:
		return new(big.Int).SetUint64(uint64(x))
	case uint64:
		return new(big.Int).SetUint64(x)
	}
	return nil
}

// ownJSONString decodes a JSON string token (RFC 8259) without encoding/json.
func ownJSONString(tok string) (string, bool) {
	if len(tok) < 2 || tok[0] != '"' || tok[len(tok)-1] != '"' {
		return "", false
	}
	in := tok[1 : len(tok)-1]
	var out []byte
	for i := 0; i < len(in); {
		c := in[i]
		switch {
		case c == '"' || c < 0x20:
			return "", false
		case c == '\\':
			if i+1 >= len(in) {
				return "", false
			}
			i++
			switch in[i] {
			case '"', '\\', '/':
				out = append(out, in[i])
			case 'b':
				out = append(out, 8)
			case 'f':
				out = append(out, 12)
			case 'n':
				out = append(out, 10)
			case 'r':
				out = append(out, 13)
			case 't':
				out = append(out, 9)
			case 'u':
				rd := func(p int) (rune, bool) {
					if p+4 > len(in) {
						return 0, false
					}
					var r rune
					for _, h := range []byte(in[p : p+4]) {
						r <<= 4
						switch {
						case h >= '0' && h <= '9':
							r |= rune(h - '0')
						case h >= 'a' && h <= 'f':
							r |= rune(h-'a') + 10
						case h >= 'A' && h <= 'F':
							r |= rune(h-'A') + 10
						default:
							return 0, false
						}
					}
					return r, true
				}
				r, ok := rd(i + 1)
				if !ok {
					return "", false
				}
				i += 4
				if utf16.IsSurrogate(r) {
					if i+6 < len(in)+0 && i+2 < len(in) && in[i+1] == '\\' && in[i+2] == 'u' {
						if r2, ok2 := rd(i + 3); ok2 {
							if dec := utf16.DecodeRune(r, r2); dec != utf8.RuneError {
								i += 6
								r = dec
							} else {
								r = utf8.RuneError
							}
						} else {
							r = utf8.RuneError
						}
					} else {
						r = utf8.RuneError
					}
				}
				out = utf8.AppendRune(out, r)
			default:
				return "", false
			}
			i++
		default:
			r, size := utf8.DecodeRuneInString(in[i:])
			if r == utf8.RuneError && size == 1 {
				out = utf8.AppendRune(out, utf8.RuneError)
			} else {
				out = append(out, in[i:i+size]...)
			}
			i += size
		}
	}
	return string(out), true
}

// ownBase64 decodes standard, padded base64, ignoring CR and LF.
func ownBase64(s string) ([]byte, bool) {
	const alpha = "ABCDEFGHIJKLMNOPQRSTUVWXYZabcdefghijklmnopqrstuvwxyz0123456789+/"
	s = strings.NewReplacer("\r", "", "\n", "").Replace(s)
	if len(s)%4 != 0 {
		return nil, false
	}
	out := []byte{}
	for i := 0; i < len(s); i += 4 {
		q := s[i : i+4]
		pad := 0
		var v uint32
		for j := 0; j < 4; j++ {
			if q[j] == '=' {
				if i+4 != len(s) || j < 2 {
					return nil, false
				}
				pad++
				v <<= 6
				continue
			}
			if pad > 0 {
				return nil, false
			}
			ix := strings.IndexByte(alpha, q[j])
			if ix < 0 {
				return nil, false
			}
			v = v<<6 | uint32(ix)
		}
		out = append(out, byte(v>>16))
		if pad < 2 {
			out = append(out, byte(v>>8))
		}
		if pad < 1 {
			out = append(out, byte(v))
		}
	}
	return out, true
}

var rfc3339Re = regexp.MustCompile(`^(\d{4})-(\d{2})-(\d{2})T(\d{2}):(\d{2}):(\d{2})(\.\d+)?(Z|[+-]\d{2}:\d{2})$`)

// ownRFC3339 returns (unix seconds, nanoseconds) of a strict RFC 3339 text.
func ownRFC3339(s string) (sec int64, nsec int64, ok bool) {
	m := rfc3339Re.FindStringSubmatch(s)
	if m == nil {
		return 0, 0, false
	}
	atoi := func(x string) int64 {
		var n int64
		for _, c := range x {
			n = n*10 + int64(c-'0')
		}
		return n
	}
	y, mo, d, h, mi, se := atoi(m[1]), atoi(m[2]), atoi(m[3]), atoi(m[4]), atoi(m[5]), atoi(m[6])
	dim := []int64{31, 28, 31, 30, 31, 30, 31, 31, 30, 31, 30, 31}
	leap := y%4 == 0 && (y%100 != 0 || y%400 == 0)
	if mo < 1 || mo > 12 || h > 23 || mi > 59 || se > 59 || d < 1 {
		return 0, 0, false
	}
	md := dim[mo-1]
	if mo == 2 && leap {
		md = 29
	}
	if d > md {
		return 0, 0, false
	}
	// days from civil (Howard Hinnant)
	yy := y
	if mo <= 2 {
		yy--
	}
	era := yy / 400
	if yy < 0 {
		era = (yy - 399) / 400
	}
	yoe := yy - era*400
	mp := (mo + 9) % 12
	doy := (153*mp+2)/5 + d - 1
	doe := yoe*365 + yoe/4 - yoe/100 + doy
	days := era*146097 + doe - 719468
	sec = days*86400 + h*3600 + mi*60 + se
	if m[8] != "Z" {
		oh, om := atoi(m[8][1:3]), atoi(m[8][4:6])
		if oh > 23 || om > 59 {
			return 0, 0, false
		}
		off := oh*3600 + om*60
		if m[8][0] == '-' {
			off = -off
		}
		sec -= off
	}
	if m[7] != "" {
		f := m[7][1:]
		for len(f) < 9 {
			f += "0"
		}
		nsec = atoi(f[:9])
	}
	return sec, nsec, true
}

// ---------- the check ----------

// c06Oracle evaluates the property on one Attr.UnmarshalToType call.
func c06Oracle(a jsonapi.Attr, text string, tree *jnode, v any, err error) (key, detail string) {
	if err != nil || a.Type < 1 || a.Type > 14 {
		return "", "" // rejected, or no attribute kind of the library (AddAttr refuses those)
	}
	// unwrap nullable
	inner := v
	if a.Nullable {
		k, isPtr, isNil, in := deref(v)
		if !isPtr || k != a.Type {
			return "wrong-go-type", fmt.Sprintf("%T for %s", v, jsonapi.GetAttrTypeString(a.Type, a.Nullable))
		}
		if isNil {
			if text != "null" {
				return "nil-for-non-null", fmt.Sprintf("%s <- %s gave nil", jsonapi.GetAttrTypeString(a.Type, true), text)
			}
			return "", ""
		}
		if text == "null" {
			return "null-not-nil", "nullable attribute given null is not nil"
		}
		inner = in
	} else if text == "null" {
		if a.Type == jsonapi.AttrTypeBytes {
			return "null-accepted-nonnullable-bytes", "non-nullable bytes attribute accepts null"
		}
		return "null-accepted-nonnullable", fmt.Sprintf("%s <- null accepted as %v", kindNames[a.Type], v)
	}
	if kindOfBase(inner) != a.Type {
		return "wrong-go-type", fmt.Sprintf("%T for %s", v, jsonapi.GetAttrTypeString(a.Type, a.Nullable))
	}
	switch a.Type {
	case 2, 3, 4, 5, 6, 7, 8, 9, 10, 11:
		if !intLitRe.MatchString(text) {
			return "non-integer-literal-accepted", fmt.Sprintf("%s <- %s accepted as %v", kindNames[a.Type], text, inner)
		}
		z, _ := new(big.Int).SetString(strings.TrimPrefix(text, "+"), 10)
		lo, hi := kindRange(a.Type)
		if z.Cmp(lo) < 0 || z.Cmp(hi) > 0 {
			return "out-of-range-literal-accepted", fmt.Sprintf("%s <- %s accepted as %v", kindNames[a.Type], text, inner)
		}
		if bigOf(inner).Cmp(z) != 0 {
			return "integer-changed", fmt.Sprintf("%s <- %s stored as %v", kindNames[a.Type], text, inner)
		}
	case 1:
		want, ok := ownJSONString(text)
		if !ok {
			return "non-string-accepted", fmt.Sprintf("string <- %s accepted as %q", text, inner)
		}
		if want != inner.(string) {
			return "string-changed", fmt.Sprintf("string <- %s stored as %q, denotes %q", text, inner, want)
		}
	case 12:
		if (text != "true" && text != "false") || (text == "true") != inner.(bool) {
			return "bool-wrong", fmt.Sprintf("bool <- %s stored as %v", text, inner)
		}
	case 13:
		s, ok := ownJSONString(text)
		if !ok {
			return "non-string-accepted", fmt.Sprintf("time <- %s accepted", text)
		}
		sec, nsec, ok := ownRFC3339(s)
		t := inner.(time.Time)
		if ok && (t.Unix() != sec || int64(t.Nanosecond()) != nsec) {
			return "time-changed", fmt.Sprintf("time <- %s stored as %d.%09d, denotes %d.%09d", text, t.Unix(), t.Nanosecond(), sec, nsec)
		}
		// (texts that strict RFC 3339 rejects but Go's lenient parser accepts are
		// outside what the property speaks about: "RFC 3339 times")
	case 14:
		if text == "null" {
			break
		}
		if strings.HasPrefix(text, "[") {
			break // arrays of numbers: not a base64 string, outside the clause
		}
		s, ok := ownJSONString(text)
		if !ok {
			return "non-string-accepted", fmt.Sprintf("bytes <- %s accepted", text)
		}
		want, ok := ownBase64(s)
		if ok && !bytes.Equal(want, inner.([]byte)) {
			return "bytes-changed", fmt.Sprintf("bytes <- %s stored as %v, denotes %v", text, inner, want)
		}
	}
	return "", ""
}

func c06Attr(c *ctx, code int, nullable bool, text string, how string) {
	a := jsonapi.Attr{Name: "f", Type: code, Nullable: nullable}
	tree := parseJSON([]byte(text))
	if tree == nil || strings.TrimSpace(text) != text {
		tree = &jnode{kind: "num", lit: text} // a token encoding/json cannot read
	}
	env := newStdEnv()
	env.addTree(tree)
	var v any
	var err error
	p, _ := guard(func() { v, err = a.UnmarshalToType([]byte(text)) })
	var obs, key, detail string
	switch {
	case p:
		obs = oPanic()
	case err != nil:
		obs = oErr()
		if v != nil {
			key, detail = "error-and-result", fmt.Sprintf("%v and %v", v, err)
		}
	default:
		obs = oOk(oValue(v))
		key, detail = c06Oracle(a, text, tree, v, err)
	}
	class := "other"
	switch {
	case intLitRe.MatchString(text):
		z, _ := new(big.Int).SetString(strings.TrimPrefix(text, "+"), 10)
		class = "int-out"
		if code >= 2 && code <= 11 {
			lo, hi := kindRange(code)
			d1 := new(big.Int).Sub(z, lo)
			d2 := new(big.Int).Sub(hi, z)
			switch {
			case d1.Sign() >= 0 && d2.Sign() >= 0 && (d1.Cmp(big.NewInt(3)) <= 0 || d2.Cmp(big.NewInt(3)) <= 0):
				class = "int-edge-in"
			case d1.Sign() >= 0 && d2.Sign() >= 0:
				class = "int-in"
			case d1.Cmp(big.NewInt(-3)) >= 0 && d1.Sign() < 0, d2.Cmp(big.NewInt(-3)) >= 0 && d2.Sign() < 0:
				class = "int-edge-out"
			}
		} else {
			class = "int-lit"
		}
		if strings.HasPrefix(text, "-0") || strings.HasPrefix(text, "+") || (len(text) > 1 && text[0] == '0') {
			class += "-noncanon"
		}
	case text == "null" || text == "true" || text == "false":
		class = text
	case tree.kind == "str":
		class = "string"
		if _, ok := goTimeParse(tree.s); ok {
			class = "string-time"
		}
		if tree.esc {
			class += "-esc"
		}
	case tree.kind == "arr":
		class = "array"
	case tree.kind == "obj":
		class = "object"
	case tree.kind == "num":
		class = "num-or-garbage"
	}
	outcome := "ok"
	if p {
		outcome = "panic"
	} else if err != nil {
		outcome = "err"
	}
	c.count("outcome:" + outcome)
	c.count("class:" + class)
	feature := fmt.Sprintf("k=%d n=%v class=%s out=%s", code, nullable, class, outcome)
	desc := fmt.Sprintf("%s <- %s", jsonapi.GetAttrTypeString(code, nullable), text)
	k := c.add("attr", desc, feature, false,
		fmt.Sprintf("(run_unmarshal_attr %s %s %s)", env.gallina(), gAttr(a), tree.gallina()), obs, key, detail)
	k.Replay = how + ": " + desc
}

func pow2(n uint) *big.Int { return new(big.Int).Lsh(big.NewInt(1), n) }

func runC06(c *ctx) {
	// every boundary +-k for every kind, against every kind
	var lits []string
	add := func(z *big.Int) { lits = append(lits, z.String()) }
	for _, bits := range []uint{7, 8, 15, 16, 31, 32, 63, 64} {
		for d := int64(-2); d <= 2; d++ {
			add(new(big.Int).Add(pow2(bits), big.NewInt(d)))
			add(new(big.Int).Add(new(big.Int).Neg(pow2(bits)), big.NewInt(d)))
		}
	}
	lits = append(lits, "0", "-0", "1", "-1", "+5", "007", "-007", "1.0", "1e2", "1E2", "-1.5", "1_0", "0x10", "", "-", "+", "--1",
		"1180591620717411303424", "-1180591620717411303424", "00", "9223372036854775808", "18446744073709551616",
		"null", "true", "false", "nul", "True",
		`""`, `"a"`, `"aé😀b"`, `"\ud800"`, `"a\"b\\c\/d"`, `"<>& "`, `"`+"\xc3\xa9"+`"`, `"5"`, `"true"`, `"null"`,
		`"2020-02-29T12:34:56Z"`, `"2020-02-29T12:34:56.123456789+05:30"`, `"0001-01-01T00:00:00Z"`, `"9999-12-31T23:59:59.999999999-23:59"`,
		`"2020-02-30T00:00:00Z"`, `"2020-01-01T24:00:00Z"`, `"2020-01-01T00:00:00"`, `"2020-01-01 00:00:00Z"`, `"2020-01-01T00:00:00Z"`,
		`"2020-01-01T00:00:00.000Z"`, `"2020-01-01T00:00:00z"`, `"2020-01-01T1:00:00Z"`, `"2020-01-01T00:00:00,5Z"`, `"2020-01-01T00:00:00+24:00"`,
		`"YQ=="`, `"YR=="`, `"YQ"`, `"YWJj"`, `"YW\nJj"`, `"YW Jj"`, `"////"`, `"AA=A"`, `"="`, `"YQ==YQ=="`, `"YQ=="`,
		`[]`, `[1,2,255]`, `[256]`, `[1.0]`, `[null,7]`, `["a"]`, `[-0]`, `{}`, `{"a":1}`, `[[1]]`)
	seen := map[string]bool{}
	for code := 0; code <= 15; code++ {
		for _, nullable := range []bool{false, true} {
			for _, l := range lits {
				c06Attr(c, code, nullable, l, "dictionary")
			}
		}
	}
	_ = seen
	// exhaustive small literals for the 8-bit kinds (thorough: 16-bit kinds too)
	for _, code := range []int{3, 8} {
		for z := -300; z <= 300; z++ {
			c06Attr(c, code, z%2 == 0, fmt.Sprint(z), "exhaustive-8bit")
		}
	}
	if c.thorough() {
		for _, code := range []int{4, 9} {
			for z := -66000; z <= 66000; z += 1 {
				if z > -32000 && z < -1000 || z > 1000 && z < 32000 || z > 33500 && z < 65000 || z < -33500 && z > -65000 {
					continue
				}
				c06Attr(c, code, z%2 == 0, fmt.Sprint(z), "exhaustive-16bit-edges")
			}
		}
	}
	// random magnitudes up to 2^70
	n := 1500
	if c.thorough() {
		n = 30000
	}
	for i := 0; i < n; i++ {
		bits := uint(c.r.intn(71))
		z := new(big.Int).SetUint64(c.r.next())
		z.Lsh(z, 8)
		z.Add(z, big.NewInt(int64(c.r.intn(256))))
		z.Mod(z, pow2(bits+1))
		if c.r.bool() {
			z.Neg(z)
		}
		code := 2 + c.r.intn(10)
		c06Attr(c, code, c.r.bool(), z.String(), "random-int")
	}
	// resource level: relationships hold the listed IDs, absent fields are zero,
	// re-marshaling reproduces the payload
	runPayloads(c, "C06")
}

func init() {
	register("C06", []string{"Model.GoTime", "Gen.TypeGo", "Model.Schema", "Model.Value", "Model.Json", "Model.SoftRes", "Model.Wrapper", "Model.Resource", "Model.Unmarshal", "Model.C17", "Model.C01", "Model.C06"}, runC06)
}
