package main

import (
	"fmt"
	"reflect"
	"sort"
	"strings"
	"time"

	"github.com/mfcochauxlaberge/jsonapi"
)

type setOp struct {
	key string
	val any
}

func oStruct(r jsonapi.Resource) string {
	t := r.GetType()
	inner := oType(jsonapi.Type{Name: t.Name, Attrs: r.Attrs(), Rels: r.Rels()})
	// oType prints OC "type" [name; attrs; rels]; the model prints OL [name; attrs; rels]
	return strings.Replace(inner, "(OC \"type\" ", "(OL ", 1)
}

func dumpRes(r jsonapi.Resource, fields []string) string {
	var it []string
	for _, f := range fields {
		var v any
		p, _ := guard(func() { v = r.Get(f) })
		if p {
			it = append(it, oPanic())
		} else {
			it = append(it, oOk(oValue(v)))
		}
	}
	return oL(it)
}

// canonGo is the reading under which the two implementations must agree.
func canonGo(v any) any {
	if v == nil {
		return nil
	}
	if _, isPtr, isNil, _ := deref(v); isPtr && isNil {
		return nil
	}
	switch x := v.(type) {
	case []byte:
		if len(x) == 0 {
			return []byte{}
		}
	case []string:
		if len(x) == 0 {
			return []string{}
		}
	}
	return v
}

func sameValue(a, b any) bool {
	a, b = canonGo(a), canonGo(b)
	if ka, pa, _, ia := deref(a); pa {
		kb, pb, _, ib := deref(b)
		return pb && ka == kb && sameValue(ia, ib)
	}
	return reflect.DeepEqual(a, b)
}

func zeroOf(f fieldSpec) any {
	if f.rel {
		if f.toOne {
			return ""
		}
		return []string{}
	}
	return jsonapi.GetZeroValue(f.code, f.nullable)
}

func c17History(c *ctx, t typeSpec, ops []setOp, how string) {
	fields := append([]string{"id"}, t.fieldNames()...)
	var gops, descs []string
	env := newStdEnv()
	for _, o := range ops {
		gops = append(gops, gPair(gStr(o.key), gValue(o.val)))
		descs = append(descs, fmt.Sprintf("Set(%q, %s)", o.key, descValue(o.val)))
		env.addValue(o.val)
	}
	expected := map[string]any{"id": ""}
	for _, f := range t.fields {
		expected[f.name] = zeroOf(f)
	}
	var key, detail string
	run := func(r jsonapi.Resource, impl string) string {
		steps := []string{oStruct(r), dumpRes(r, fields)}
		check := func(i int) {
			if key != "" {
				return
			}
			for _, f := range fields {
				got := r.Get(f)
				if !sameValue(got, expected[f]) {
					key, detail = "get-differs-from-last-set", fmt.Sprintf("%s: after %d sets Get(%q) = %s, want %s", impl, i, f, descValue(got), descValue(expected[f]))
				}
			}
		}
		// fresh resource
		if r.GetType().Name != t.name && key == "" {
			key, detail = "fresh-type-name", impl+": "+r.GetType().Name
		}
		check(0)
		for i, o := range ops {
			p, pv := guard(func() { r.Set(o.key, o.val) })
			if p {
				steps = append(steps, oPanic())
				if key == "" {
					key, detail = "set-panics", fmt.Sprintf("%s: %s: %v", impl, descs[i], pv)
				}
				break
			}
			if impl == "soft" { // update the reference once
				if o.key == "id" {
					expected["id"] = o.val
				} else if f := t.field(o.key); f != nil {
					v := o.val
					if v == nil {
						v = zeroOf(*f)
					}
					expected[o.key] = v
				}
			}
			check(i + 1)
			steps = append(steps, dumpRes(r, fields))
		}
		return oL(steps)
	}
	// the reference is updated while the soft resource runs; replay it for the wrapper
	softObs := run(t.newSoft(), "soft")
	final := map[string]any{}
	for k, v := range expected {
		final[k] = v
	}
	// reset the reference and run the wrapper, checking after every step too
	expected = map[string]any{"id": ""}
	for _, f := range t.fields {
		expected[f.name] = zeroOf(f)
	}
	var wrapObs string
	var w *jsonapi.Wrapper
	p, pv := guard(func() { w = t.newWrapped() })
	if p {
		wrapObs = oPanic()
		if key == "" {
			key, detail = "wrap-panics", fmt.Sprint(pv)
		}
	} else {
		// both implementations expose the same type name, attributes and relationships
		ts := t
		ts.noFrom = false // the struct's relationships always carry the type's name
		if a, b := oStruct(w), oStruct(ts.newSoft()); a != b && key == "" {
			key, detail = "implementations-differ-in-structure", fmt.Sprintf("wrapper %s, soft %s", a, b)
		}
		// mirror updates
		steps := []string{oStruct(w), dumpRes(w, fields)}
		for i, o := range ops {
			p, pv := guard(func() { w.Set(o.key, o.val) })
			if p {
				steps = append(steps, oPanic())
				if key == "" {
					key, detail = "set-panics", fmt.Sprintf("wrapper: %s: %v", descs[i], pv)
				}
				break
			}
			if o.key == "id" {
				expected["id"] = o.val
			} else if f := t.field(o.key); f != nil {
				v := o.val
				if v == nil {
					v = zeroOf(*f)
				}
				expected[o.key] = v
			}
			for _, f := range fields {
				got := w.Get(f)
				if key == "" && !sameValue(got, expected[f]) {
					key, detail = "get-differs-from-last-set", fmt.Sprintf("wrapper: after %d sets Get(%q) = %s, want %s", i+1, f, descValue(got), descValue(expected[f]))
				}
			}
			steps = append(steps, dumpRes(w, fields))
		}
		wrapObs = oL(steps)
	}
	// a resource created by New() of a used resource is fresh: the type's name and fields, all zero values
	for _, wrapped := range []bool{false, true} {
		if key != "" {
			break
		}
		p, pv := guard(func() {
			src := buildRes(t, wrapped, ops)
			fresh := src.(interface{ New() jsonapi.Resource }).New()
			if fresh.GetType().Name != t.name || oStruct(fresh) != oStruct(src) {
				key, detail = "new-resource-other-type", fmt.Sprintf("wrapped=%v", wrapped)
			}
			if fresh.Get("id") != "" {
				key, detail = "new-resource-not-zero", fmt.Sprintf("wrapped=%v id=%q", wrapped, fresh.Get("id"))
			}
			for _, f := range t.fields {
				if !sameValue(fresh.Get(f.name), zeroOf(f)) {
					key, detail = "new-resource-not-zero", fmt.Sprintf("wrapped=%v %s = %s", wrapped, f.name, descValue(fresh.Get(f.name)))
				}
			}
		})
		if p && key == "" {
			key, detail = "new-panics", fmt.Sprint(pv)
		}
	}
	// the same for a soft resource over a type that BuildType made (it carries a constructor
	// for the struct) and that was renamed and extended since
	if key == "" && tagSafeSpec(t) {
		p, pv := guard(func() {
			ty, err := jsonapi.BuildType(reflect.New(t.structType()).Interface())
			if err != nil {
				return
			}
			ty = ty.Copy()
			ty.Name = "renamed"
			_ = ty.AddAttr(jsonapi.Attr{Name: "added-since", Type: jsonapi.AttrTypeInt})
			src := &jsonapi.SoftResource{Type: &ty}
			for _, o := range ops {
				src.Set(o.key, o.val)
			}
			fresh := src.New()
			if fresh.GetType().Name != "renamed" || oStruct(fresh) != oStruct(src) {
				key, detail = "new-resource-other-type", fmt.Sprintf("soft resource over an edited struct-built type: New() is of type %q with %d attributes", fresh.GetType().Name, len(fresh.Attrs()))
			} else if fresh.Get("id") != "" || fresh.Get("added-since") != 0 {
				key, detail = "new-resource-not-zero", "soft resource over an edited struct-built type"
			}
		})
		if p && key == "" {
			key, detail = "new-panics", fmt.Sprint(pv)
		}
	}
	// two wrappers over one struct read and write the same fields, the ID included
	if key == "" && tagSafeSpec(t) {
		p, pv := guard(func() {
			v := reflect.New(t.structType()).Interface()
			w1, w2 := jsonapi.Wrap(v), jsonapi.Wrap(v)
			for i, o := range ops {
				a, b := w1, w2
				if i%2 == 1 {
					a, b = w2, w1
				}
				a.Set(o.key, o.val)
				if !sameValue(b.Get(o.key), a.Get(o.key)) || a.GetID() != b.GetID() || a.Get("id") != b.Get("id") {
					key, detail = "wrappers-of-one-struct-disagree", fmt.Sprintf("after Set(%q) through one wrapper the other reads %s (id %q vs %q)", o.key, descValue(b.Get(o.key)), a.GetID(), b.GetID())
				}
			}
			w1.Set("id", "set-through-w1")
			if w2.Get("id") != "set-through-w1" || w2.GetID() != "set-through-w1" || !jsonapi.EqualStrict(w1, w2) {
				key, detail = "wrappers-of-one-struct-disagree", fmt.Sprintf("id set through one wrapper, the other reads %q", w2.GetID())
			}
		})
		if p && key == "" {
			key, detail = "wrap-panics", fmt.Sprint(pv)
		}
	}
	nnil := 0
	for _, o := range ops {
		if o.val == nil {
			nnil++
		}
	}
	feature := fmt.Sprintf("fields=%d ops=%d untypednil=%d", len(t.fields), len(ops), nnil)
	desc := fmt.Sprintf("type %s fields %v: %s", t.name, t.fieldNames(), strings.Join(descs, "; "))
	c.count(fmt.Sprintf("ops=%d", min(len(ops)/5*5, 40)))
	k := c.add("sets-soft", desc, feature, len(ops) == 0,
		fmt.Sprintf("(run_c17 (new_soft %s) %s %s)", t.gType(), gList(gops), gStrs(fields)), softObs, key, detail)
	k.Replay = how
	k2 := c.add("sets-wrapped", desc, feature, len(ops) == 0,
		fmt.Sprintf("(run_c17 (new_wrapped %s) %s %s)", t.gDesc(), gList(gops), gStrs(fields)), wrapObs, "", "")
	k2.Replay = how
	_ = final
}

// c17Retype: a soft resource whose type is replaced; never-set fields of the
// new type read as its zero values, as on a fresh resource of that type.
func c17Retype(c *ctx, t1 typeSpec, ops1 []setOp, t2 typeSpec, ops2 []setOp) {
	fieldSet := map[string]bool{"id": true}
	for _, n := range append(t1.fieldNames(), t2.fieldNames()...) {
		fieldSet[n] = true
	}
	fields := keysOf(fieldSet)
	env := newStdEnv()
	for _, o := range append(append([]setOp{}, ops1...), ops2...) {
		env.addValue(o.val)
	}
	var obs, key, detail string
	p, pv := guard(func() {
		ty1, ty2 := t1.softType(), t2.softType()
		sr := &jsonapi.SoftResource{Type: &ty1}
		for _, o := range ops1 {
			sr.Set(o.key, o.val)
		}
		d1 := dumpRes(sr, fields)
		sr.SetType(&ty2)
		st := oStruct(sr)
		d2 := dumpRes(sr, fields)
		// oracle: a field of t2 that t1 does not have was never set
		fresh := &jsonapi.SoftResource{Type: &ty2}
		for _, f := range t2.fields {
			if t1.field(f.name) == nil && !sameValue(sr.Get(f.name), fresh.Get(f.name)) {
				key, detail = "unset-field-not-zero-after-settype", fmt.Sprintf("%s reads %s, a fresh resource %s", f.name, descValue(sr.Get(f.name)), descValue(fresh.Get(f.name)))
			}
		}
		for _, o := range ops2 {
			sr.Set(o.key, o.val)
		}
		d3 := dumpRes(sr, fields)
		sr.SetType(&ty1)
		d4 := dumpRes(sr, fields)
		obs = oL([]string{d1, st, d2, d3, d4})
		// back under the first type: what the second type did not have was dropped on the way
		fresh1 := &jsonapi.SoftResource{Type: &ty1}
		for _, f := range t1.fields {
			if t2.field(f.name) == nil && !sameValue(sr.Get(f.name), fresh1.Get(f.name)) && key == "" {
				key, detail = "unset-field-not-zero-after-settype", fmt.Sprintf("%s reads %s after the type was replaced and restored, a fresh resource %s", f.name, descValue(sr.Get(f.name)), descValue(fresh1.Get(f.name)))
			}
		}
		// the same without any call between the two SetType
		tyA, tyB := t1.softType(), t2.softType()
		quiet := &jsonapi.SoftResource{Type: &tyA}
		for _, o := range ops1 {
			quiet.Set(o.key, o.val)
		}
		quiet.SetType(&tyB)
		quiet.SetType(&tyA)
		for _, f := range t1.fields {
			if t2.field(f.name) == nil && !sameValue(quiet.Get(f.name), fresh1.Get(f.name)) && key == "" {
				key, detail = "unset-field-not-zero-after-settype", fmt.Sprintf("%s reads %s after SetType, SetType back (nothing read in between), a fresh resource %s", f.name, descValue(quiet.Get(f.name)), descValue(fresh1.Get(f.name)))
			}
		}
	})
	if p {
		obs = oPanic()
		key, detail = "retype-panics", fmt.Sprint(pv)
	}
	k := c.add("retype", fmt.Sprintf("%s%v -> %s%v", t1.name, t1.fieldNames(), t2.name, t2.fieldNames()),
		fmt.Sprintf("n1=%d n2=%d same=%v", min(len(t1.fields), 6), min(len(t2.fields), 6), len(t1.fields) == len(t2.fields)), false,
		fmt.Sprintf("(run_retype %s %s %s %s %s)", t1.gType(), gOps(ops1), t2.gType(), gOps(ops2), gStrs(fields)), obs, key, detail)
	k.Replay = "retype"
	_ = env
}

func randSetOps(r *rng, t typeSpec, n int) []setOp {
	var ops []setOp
	for i := 0; i < n; i++ {
		if len(t.fields) == 0 || r.chance(1, 10) {
			ops = append(ops, setOp{"id", pick(r, dictIDs)})
			continue
		}
		f := pick(r, t.fields)
		if f.rel {
			if f.toOne {
				ops = append(ops, setOp{f.name, pick(r, dictIDs)})
			} else {
				ops = append(ops, setOp{f.name, randIDs(r)})
			}
		} else {
			ops = append(ops, setOp{f.name, randValue(r, f.code, f.nullable, true)})
		}
	}
	return ops
}

func runC17(c *ctx) {
	all := allKindsSpec("alltypes", "other")
	// every value of every kind's dictionary, set once
	for _, f := range all.fields {
		if f.rel {
			continue
		}
		var ops []setOp
		for _, v := range dictValues(f.code) {
			if f.nullable {
				ops = append(ops, setOp{f.name, ptrTo(v)})
			} else {
				ops = append(ops, setOp{f.name, v})
			}
		}
		if f.nullable {
			ops = append(ops, setOp{f.name, nil}, setOp{f.name, reflect.Zero(goTypeOf(f.code, true)).Interface()})
		}
		c17History(c, all, ops, "dictionary "+f.name)
	}
	n := 150
	if c.thorough() {
		n = 3000
	}
	for i := 0; i < n; i++ {
		var t typeSpec
		if c.r.chance(1, 3) {
			t = all
		} else {
			t = randTypeSpec(c.r, pick(c.r, []string{"t", "users", "a-b"}), 8, []string{"t", "other"})
		}
		c17History(c, t, randSetOps(c.r, t, c.r.intn(41)), "random")
	}
	nr := 60
	if c.thorough() {
		nr = 1500
	}
	for i := 0; i < nr; i++ {
		nf := 1 + c.r.intn(4)
		t1 := randTypeSpec(c.r, "t", nf, []string{"t", "other"})
		t2 := randTypeSpec(c.r, pick(c.r, []string{"t", "u"}), nf, []string{"t", "other"})
		if c.r.chance(1, 2) {
			// same number of fields, other names
			n := min(len(t1.fields), len(t2.fields))
			t1.fields, t2.fields = t1.fields[:n], t2.fields[:n]
			for j := range t2.fields {
				t2.fields[j].name = "z" + t2.fields[j].name
			}
		}
		c17Retype(c, t1, randSetOps(c.r, t1, c.r.intn(8)), t2, randSetOps(c.r, t2, c.r.intn(8)))
	}
	runC17Equal(c)
}

func init() {
	register("C17", []string{"Model.GoTime", "Gen.TypeGo", "Model.Schema", "Model.Value", "Model.SoftRes", "Model.Wrapper", "Model.Resource", "Model.Equal", "Model.C17"}, runC17)
}

// ---------- equality helpers ----------

type builtRes struct {
	spec    typeSpec
	wrapped bool
	ops     []setOp
}

func (b builtRes) build() (r jsonapi.Resource, ok bool) {
	p, _ := guard(func() {
		if b.wrapped {
			r = b.spec.newWrapped()
		} else {
			r = b.spec.newSoft()
		}
		for _, o := range b.ops {
			r.Set(o.key, o.val)
		}
	})
	return r, !p
}

func (b builtRes) gallina() (string, string) {
	var gops []string
	for _, o := range b.ops {
		gops = append(gops, gPair(gStr(o.key), gValue(o.val)))
	}
	if b.wrapped {
		return "(new_wrapped " + b.spec.gDesc() + ")", gList(gops)
	}
	return "(new_soft " + b.spec.gType() + ")", gList(gops)
}

func boolRes(f func() bool) (string, bool, bool) {
	var v bool
	p, _ := guard(func() { v = f() })
	if p {
		return oPanic(), false, true
	}
	return oOk(oB(v)), v, false
}

func sameNameSets(a, b jsonapi.Resource) bool {
	na, nb := map[string]bool{}, map[string]bool{}
	for k := range a.Attrs() {
		na[k] = true
	}
	for k := range a.Rels() {
		na[k] = true
	}
	for k := range b.Attrs() {
		nb[k] = true
	}
	for k := range b.Rels() {
		nb[k] = true
	}
	return reflect.DeepEqual(na, nb)
}

func c17Equal(c *ctx, a, b builtRes, how string) {
	ra, okA := a.build()
	rb, okB := b.build()
	if !okA || !okB {
		return
	}
	// what the two resources hold is read BEFORE the helpers run
	allFields := func(r jsonapi.Resource) []string {
		fs := []string{"id"}
		for k := range r.Attrs() {
			fs = append(fs, k)
		}
		for k := range r.Rels() {
			fs = append(fs, k)
		}
		sort.Strings(fs)
		return fs
	}
	var names bool
	var differ, dumpA, dumpB string
	if p0, pv0 := guard(func() {
		names = sameNameSets(ra, rb)
		if ra.GetType().Name != rb.GetType().Name {
			differ = "type name"
		} else if !names {
			differ = "field names"
		} else {
			for k := range ra.Attrs() {
				if !sameValue(ra.Get(k), rb.Get(k)) {
					differ = "value of " + k
				}
			}
			for k := range ra.Rels() {
				if !sameValue(ra.Get(k), rb.Get(k)) {
					differ = "value of " + k
				}
			}
		}
		dumpA, dumpB = dumpRes(ra, allFields(ra)), dumpRes(rb, allFields(rb))
	}); p0 {
		// a field the resource lists cannot be read
		ga, opsa := a.gallina()
		gb, opsb := b.gallina()
		k := c.add("equal", how, "listed-field-unreadable", false, fmt.Sprintf("(run_equal %s %s %s %s)", ga, opsa, gb, opsb), oPanic(), "listed-field-unreadable", fmt.Sprint(pv0))
		k.Replay = how
		return
	}
	o1, e1, p1 := boolRes(func() bool { return jsonapi.Equal(ra, rb) })
	o2, e2, p2 := boolRes(func() bool { return jsonapi.Equal(rb, ra) })
	o3, e3, p3 := boolRes(func() bool { return jsonapi.EqualStrict(ra, rb) })
	o4, e4, p4 := boolRes(func() bool { return jsonapi.Equal(ra, ra) })
	obs := oL([]string{o1, o2, o3, o4})
	var key, detail string
	// the recorded finding: fields are paired by position after sorting and their
	// names never compared -- it can only show when both sides have the same
	// number of attributes and of relationships
	pre := ""
	if !names && len(ra.Attrs()) == len(rb.Attrs()) && len(ra.Rels()) == len(rb.Rels()) {
		pre = "equal-ignores-field-names"
	}
	fail := func(k, d string) {
		if key == "" {
			if pre != "" {
				k = pre
			}
			key, detail = k, d
		}
	}
	if p4 || !e4 {
		key, detail = "equal-not-reflexive", "Equal(a, a) is not true"
	}
	if p1 || p2 || p3 {
		fail("equal-panics", "Equal or EqualStrict panicked")
	}
	if !p1 && !p2 && e1 != e2 {
		fail("equal-not-symmetric", fmt.Sprintf("Equal(a,b)=%v Equal(b,a)=%v", e1, e2))
	}
	if dumpRes(ra, allFields(ra)) != dumpA || dumpRes(rb, allFields(rb)) != dumpB {
		fail("equal-changes-what-get-reads", "Get reads another value after Equal / EqualStrict ran")
	}
	if !p1 && e1 && differ != "" {
		fail("equal-true-but-different", "Equal(a,b) although they differ in "+differ)
	}
	if !p3 && e3 && (differ != "" || ra.Get("id") != rb.Get("id")) {
		fail("equalstrict-true-but-different", "EqualStrict(a,b) although they differ in "+differ+" or id")
	}
	ga, opsa := a.gallina()
	gb, opsb := b.gallina()
	feature := fmt.Sprintf("wrapped=%v/%v names=%v differ=%s eq=%v/%v/%v", a.wrapped, b.wrapped, names, strings.SplitN(differ, " ", 2)[0], e1, e2, e3)
	desc := fmt.Sprintf("a: type %s %v wrapped=%v ops=%d; b: type %s %v wrapped=%v ops=%d (%s)", a.spec.name, a.spec.fieldNames(), a.wrapped, len(a.ops), b.spec.name, b.spec.fieldNames(), b.wrapped, len(b.ops), how)
	c.count("equal:" + how)
	k := c.add("equal", desc, feature, false, fmt.Sprintf("(run_equal %s %s %s %s)", ga, opsa, gb, opsb), obs, key, detail)
	k.Replay = how
}

func cloneSpec(t typeSpec) typeSpec {
	return typeSpec{name: t.name, fields: append([]fieldSpec{}, t.fields...), idLast: t.idLast, noFrom: t.noFrom}
}

func runC17Equal(c *ctx) {
	n := 60
	if c.thorough() {
		n = 1500
	}
	for i := 0; i < n; i++ {
		t := randTypeSpec(c.r, "t", 6, []string{"t", "other"})
		if c.r.chance(1, 5) {
			t = allKindsSpec("alltypes", "other")
		}
		ops := randSetOps(c.r, t, c.r.intn(12))
		// drop times with a zone and untyped details that DeepEqual sees: keep UTC times only
		var clean []setOp
		for _, o := range ops {
			switch x := o.val.(type) {
			case time.Time:
				o.val = x.UTC()
			case *time.Time:
				if x != nil {
					u := x.UTC()
					o.val = &u
				}
			}
			clean = append(clean, o)
		}
		ops = clean
		for _, wa := range []bool{false, true} {
			for _, wb := range []bool{false, true} {
				a := builtRes{t, wa, ops}
				c17Equal(c, a, builtRes{t, wb, ops}, "identical")
				// other id
				c17Equal(c, a, builtRes{t, wb, append(append([]setOp{}, ops...), setOp{"id", "other-id"})}, "id-differs")
				// other type name
				t2 := cloneSpec(t)
				t2.name = "t2"
				c17Equal(c, a, builtRes{t2, wb, ops}, "type-name-differs")
				if len(t.fields) > 0 {
					fi := c.r.intn(len(t.fields))
					f := t.fields[fi]
					// one value differs
					var v any
					if f.rel {
						if f.toOne {
							v = "zzz"
						} else {
							v = []string{"zzz", "y"}
						}
					} else {
						v = pick(c.r, dictValues(f.code))
						if tv, ok := v.(time.Time); ok {
							v = tv.UTC()
						}
						if f.nullable {
							v = ptrTo(v)
						}
					}
					c17Equal(c, a, builtRes{t, wb, append(append([]setOp{}, ops...), setOp{f.name, v})}, "value-differs")
					// a to-many relationship holding the same IDs in another order
					for _, g := range t.fields {
						if g.rel && !g.toOne {
							opsA := append(append([]setOp{}, ops...), setOp{g.name, []string{"u3", "u1", "u2"}})
							opsB := append(append([]setOp{}, ops...), setOp{g.name, []string{"u1", "u2", "u3"}})
							c17Equal(c, builtRes{t, wa, opsA}, builtRes{t, wb, opsB}, "to-many-order-differs")
							break
						}
					}
					// one field renamed
					t3 := cloneSpec(t)
					t3.fields[fi].name = "renamed"
					var ops3 []setOp
					for _, o := range ops {
						if o.key == f.name {
							o.key = "renamed"
						}
						ops3 = append(ops3, o)
					}
					c17Equal(c, a, builtRes{t3, wb, ops3}, "field-renamed")
				}
				// one side has one more attribute / relationship (sorted last, first), both orders
				for _, extra := range []fieldSpec{{name: "zzextra", code: 2}, {name: "0extra", code: 1}, {rel: true, name: "zzrel", toOne: true, target: "other"}} {
					t4 := cloneSpec(t)
					t4.fields = append(t4.fields, extra)
					c17Equal(c, a, builtRes{t4, wb, ops}, "extra-field")
					c17Equal(c, builtRes{t4, wb, ops}, a, "extra-field")
				}
			}
		}
	}
	// "<nil>" text against a nil pointer of another kind (F17b)
	ta := typeSpec{name: "t", fields: []fieldSpec{{name: "a", code: 1}}}
	tb := typeSpec{name: "t", fields: []fieldSpec{{name: "a", code: 2, nullable: true}}}
	c17Equal(c, builtRes{ta, false, []setOp{{"a", "<nil>"}}}, builtRes{tb, false, nil}, "corpus F17b")
	c17Equal(c, builtRes{tb, false, nil}, builtRes{ta, false, []setOp{{"a", "<nil>"}}}, "corpus F17b")
	// names never compared (F17a)
	tc := typeSpec{name: "t", fields: []fieldSpec{{name: "b", code: 1}}}
	c17Equal(c, builtRes{ta, false, nil}, builtRes{tc, false, nil}, "corpus F17a")
	c17Equal(c, builtRes{ta, false, nil}, builtRes{tc, true, nil}, "corpus F17a wrapped")
}
