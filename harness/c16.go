package main

import (
	"fmt"
	"reflect"
	"sort"

	"github.com/mfcochauxlaberge/jsonapi"
)

func gRel(r jsonapi.Rel) string {
	return fmt.Sprintf("(mkRel %s %s %s %s %s %s)", gStr(r.FromType), gStr(r.FromName), gBool(r.ToOne),
		gStr(r.ToType), gStr(r.ToName), gBool(r.FromOne))
}
func oRel(r jsonapi.Rel) string {
	return oC("rel", oS(r.FromType), oS(r.FromName), oB(r.ToOne), oS(r.ToType), oS(r.ToName), oB(r.FromOne))
}
func gAttr(a jsonapi.Attr) string {
	return fmt.Sprintf("(mkAttr %s %s %s)", gStr(a.Name), gZ(a.Type), gBool(a.Nullable))
}

// gType prints a Type with its maps in sorted key order (the model's theorems
// quantify over the order; the correspondence fixes one).
func gType(t jsonapi.Type) string {
	ak := make([]string, 0, len(t.Attrs))
	for k := range t.Attrs {
		ak = append(ak, k)
	}
	sort.Strings(ak)
	var as []string
	for _, k := range ak {
		as = append(as, gPair(gStr(k), gAttr(t.Attrs[k])))
	}
	rk := make([]string, 0, len(t.Rels))
	for k := range t.Rels {
		rk = append(rk, k)
	}
	sort.Strings(rk)
	var rs []string
	for _, k := range rk {
		rs = append(rs, gPair(gStr(k), gRel(t.Rels[k])))
	}
	return fmt.Sprintf("(mkType %s %s %s)", gStr(t.Name), gList(as), gList(rs))
}
func gSchema(s *jsonapi.Schema) string {
	var ts []string
	for _, t := range s.Types {
		ts = append(ts, gType(t))
	}
	return "(mkSchema " + gList(ts) + ")"
}

func descRel(r jsonapi.Rel) string {
	return fmt.Sprintf("Rel{FromType:%q FromName:%q ToOne:%v ToType:%q ToName:%q FromOne:%v}", r.FromType, r.FromName, r.ToOne, r.ToType, r.ToName, r.FromOne)
}
func descRels(rs []jsonapi.Rel) string {
	s := "["
	for i, r := range rs {
		if i > 0 {
			s += " "
		}
		s += descRel(r)
	}
	return s + "]"
}

// c16Laws evaluates the property's laws directly on the Go functions.
func c16Laws(r jsonapi.Rel) (key, detail string) {
	inv := r.Invert()
	if inv.Invert() != r {
		return "invert-not-involutive", descRel(r) + " -> " + descRel(inv) + " -> " + descRel(inv.Invert())
	}
	n := r.Normalize()
	if n2 := n.Normalize(); n2 != n {
		return "normalize-not-idempotent", descRel(r) + " -> " + descRel(n) + " -> " + descRel(n2)
	}
	if n != r && n != inv {
		return "normalize-neither", descRel(r) + " -> " + descRel(n)
	}
	if r.ToName == "" && n != r {
		return "normalize-oneway-changed", descRel(r) + " -> " + descRel(n)
	}
	twoWay := r.FromName != "" && r.ToName != ""
	degenerate := r.FromType == r.ToType && r.FromName == r.ToName && r.ToOne != r.FromOne
	if twoWay && !degenerate {
		if ni := inv.Normalize(); ni != n {
			return "normalize-pair-differs", descRel(r) + " -> " + descRel(n) + " but inverse -> " + descRel(ni)
		}
		if r.String() != inv.String() {
			return "string-pair-differs", descRel(r) + fmt.Sprintf(": %q vs %q", r.String(), inv.String())
		}
	}
	return "", ""
}

func c16Law(c *ctx, r jsonapi.Rel, how string) {
	var obs string
	var key, detail string
	p, _ := guard(func() {
		inv := r.Invert()
		n := r.Normalize()
		obs = oL([]string{oRel(inv), oRel(n), oS(r.String())})
		key, detail = c16Laws(r)
	})
	if p {
		obs = oPanic()
		key, detail = "panic", descRel(r)
	}
	twoWay := r.FromName != "" && r.ToName != ""
	collide := r.FromType+r.FromName == r.ToType+r.ToName && (r.FromType != r.ToType)
	feature := fmt.Sprintf("2way=%v collide=%v sametype=%v samename=%v cards=%v%v cmpT=%d cmpN=%d",
		twoWay, collide, r.FromType == r.ToType, r.FromName == r.ToName, r.ToOne, r.FromOne,
		cmpStr(r.FromType, r.ToType), cmpStr(r.FromName, r.ToName))
	if collide {
		c.count("laws:concat-collision")
	}
	if twoWay {
		c.count("laws:two-way")
	} else {
		c.count("laws:one-way-or-unnamed")
	}
	k := c.add("laws", descRel(r), feature, false, "(run_rel_laws "+gRel(r)+")", obs, key, detail)
	k.Replay = "rel " + descRel(r) + " (" + how + ")"
}

func cmpStr(a, b string) int {
	if a < b {
		return -1
	}
	if a > b {
		return 1
	}
	return 0
}

// ---- schemas ----

type c16Schema struct {
	types []jsonapi.Type
}

func copyTypes(ts []jsonapi.Type) []jsonapi.Type {
	out := make([]jsonapi.Type, len(ts))
	for i, t := range ts {
		out[i] = t.Copy()
	}
	return out
}

func c16RelsCase(c *ctx, ts []jsonapi.Type, coherent bool) {
	s := &jsonapi.Schema{Types: copyTypes(ts)}
	var got []jsonapi.Rel
	var key, detail string
	p, pv := guard(func() { got = s.Rels() })
	obs := ""
	if p {
		obs = oPanic()
		key, detail = "rels-panic", fmt.Sprint(pv)
	} else {
		var it []string
		for _, r := range got {
			it = append(it, oRel(r))
		}
		obs = oL(it)
		// oracle 1: every owned relationship's normal form exactly once, nothing else
		want := map[jsonapi.Rel]bool{}
		for _, t := range s.Types {
			for _, r := range t.Rels {
				want[r.Normalize()] = true
			}
		}
		seen := map[jsonapi.Rel]int{}
		for _, r := range got {
			seen[r]++
		}
		for r := range want {
			if seen[r] != 1 {
				key, detail = "rels-missing-or-duplicate", descRel(r)+fmt.Sprintf(" listed %d times", seen[r])
			}
		}
		for r := range seen {
			if !want[r] {
				key, detail = "rels-foreign-entry", descRel(r)+" is no owned relationship's normal form"
			}
		}
		// oracle 1b (coherent schemas): a pair is listed once
		if key == "" && coherent {
			for _, t := range s.Types {
				for _, r := range t.Rels {
					if r.ToName == "" {
						continue
					}
					n := 0
					for _, g := range got {
						if g == r || g == r.Invert() {
							n++
						}
					}
					if n != 1 {
						key, detail = "rels-pair-not-once", descRel(r)+fmt.Sprintf(" and its inverse listed %d times", n)
					}
				}
			}
		}
		// (that the list is sorted by relLess is checked by the correspondence only:
		// the property itself demands an order that does not depend on construction)
		// oracle 3: independent of construction order and stable between calls
		if key == "" {
			for rep := 0; rep < 6 && key == ""; rep++ {
				ts2 := copyTypes(ts)
				shuffle(c.r, ts2)
				s2 := &jsonapi.Schema{Types: ts2}
				got2 := s2.Rels()
				if !reflect.DeepEqual(got, got2) && !(len(got) == 0 && len(got2) == 0) {
					key, detail = "rels-order-depends-on-construction", descRels(got)+" vs "+descRels(got2)
				}
				got3 := s.Rels()
				if !reflect.DeepEqual(got, got3) && !(len(got) == 0 && len(got3) == 0) {
					key, detail = "rels-unstable-between-calls", descRels(got)+" vs "+descRels(got3)
				}
				// the list returned is the caller's: reordering it does not reorder the next one
				for a, b := 0, len(got3)-1; a < b; a, b = a+1, b-1 {
					got3[a], got3[b] = got3[b], got3[a]
				}
				if got5 := s.Rels(); !reflect.DeepEqual(got, got5) && !(len(got) == 0 && len(got5) == 0) && key == "" {
					key, detail = "rels-unstable-between-calls", "after the caller reversed the list it had been given: "+descRels(got)+" vs "+descRels(got5)
				}
			}
			// oracle 3b: a type replaced by another of the same name with as many, but other,
			// relationships (Rels() consulted before): the list is the new schema's
			if key == "" && len(ts) > 0 && coherent {
				s6 := &jsonapi.Schema{}
				for _, t := range copyTypes(ts) {
					_ = s6.AddType(t)
				}
				_ = s6.Rels()
				if len(s6.Types) != len(ts) {
					s6 = &jsonapi.Schema{Types: copyTypes(ts)} // AddType refused one: take the schema as written
					_ = s6.Rels()
				}
				old := copyTypes(ts)[0]
				repl := jsonapi.Type{Name: old.Name, Attrs: old.Attrs, Rels: map[string]jsonapi.Rel{}}
				for n, r := range old.Rels {
					r2 := jsonapi.Rel{FromType: old.Name, FromName: n + "-replaced", ToOne: !r.ToOne, ToType: r.ToType}
					repl.Rels[r2.FromName] = r2
				}
				s6.RemoveType(old.Name)
				errAdd := s6.AddType(repl)
				fresh := (&jsonapi.Schema{Types: copyTypes(s6.Types)}).Rels()
				if got6 := s6.Rels(); errAdd == nil && !reflect.DeepEqual(got6, fresh) && !(len(got6) == 0 && len(fresh) == 0) {
					key, detail = "rels-depend-on-edit-history", "after replacing type "+old.Name+": "+descRels(got6)+" vs, built afresh, "+descRels(fresh)
				}
			}
			// oracle 4: the same schema built through the editing API, with Rels() consulted
			// between the edits, lists the same relationships
			if key == "" {
				if got4, ok := relsThroughEdits(c.r, ts); ok && !reflect.DeepEqual(got, got4) && !(len(got) == 0 && len(got4) == 0) {
					key, detail = "rels-depend-on-edit-history", descRels(got)+" vs, built by edits, "+descRels(got4)
				}
			}
		}
	}
	nrels := 0
	for _, t := range ts {
		nrels += len(t.Rels)
	}
	feature := fmt.Sprintf("types=%d rels=%d listed=%d coherent=%v", len(ts), nrels, len(got), coherent)
	c.count(fmt.Sprintf("rels:coherent=%v", coherent))
	k := c.add("rels", gSchema(s), feature, nrels == 0, "(run_schema_rels "+gSchema(s)+")", obs, key, detail)
	k.Replay = "schema " + gSchema(s)
}

// relsThroughEdits builds the schema with AddType (attributes only), then AddRel /
// AddTwoWayRel for every relationship, calling Rels() between the edits; ok is
// false when the API refuses one of the edits or the result is not the schema wanted.
func relsThroughEdits(r *rng, ts []jsonapi.Type) (out []jsonapi.Rel, ok bool) {
	defer func() {
		if recover() != nil {
			ok = false
		}
	}()
	s := &jsonapi.Schema{}
	for _, t := range ts {
		bare := jsonapi.Type{Name: t.Name, Attrs: map[string]jsonapi.Attr{}, Rels: map[string]jsonapi.Rel{}}
		for k, a := range t.Attrs {
			bare.Attrs[k] = a
		}
		if s.AddType(bare) != nil {
			return nil, false
		}
	}
	_ = s.Rels()
	type item struct {
		tn string
		r  jsonapi.Rel
	}
	var todo []item
	for _, t := range ts {
		for _, rel := range t.Rels {
			todo = append(todo, item{t.Name, rel})
		}
	}
	shuffle(r, todo)
	done := map[[2]string]bool{}
	for _, it := range todo {
		if done[[2]string{it.tn, it.r.FromName}] {
			continue
		}
		// a reciprocated pair goes in with one AddTwoWayRel call
		twoWay := false
		if it.r.ToName != "" && it.r.FromType == it.tn {
			for _, t := range ts {
				if t.Name == it.r.ToType {
					if inv, has := t.Rels[it.r.ToName]; has && inv == it.r.Invert() && !(it.r.FromType == it.r.ToType && it.r.FromName == it.r.ToName) {
						twoWay = true
					}
				}
			}
		}
		if twoWay {
			if s.AddTwoWayRel(it.r) != nil {
				return nil, false
			}
			done[[2]string{it.tn, it.r.FromName}] = true
			done[[2]string{it.r.ToType, it.r.ToName}] = true
		} else {
			if s.AddRel(it.tn, it.r) != nil {
				return nil, false
			}
			done[[2]string{it.tn, it.r.FromName}] = true
		}
		if r.bool() {
			_ = s.Rels()
		}
	}
	// the schema built is the schema wanted
	for _, t := range ts {
		bt := s.GetType(t.Name)
		if len(bt.Rels) != len(t.Rels) {
			return nil, false
		}
		for k, rel := range t.Rels {
			if bt.Rels[k] != rel {
				return nil, false
			}
		}
	}
	return s.Rels(), true
}

var c16Names = []string{"", "a", "b", "ab", "bc", "c"}
var c16Long = []string{"a_b", "b_c", "a", "c", "a_b_c", "_", "ab", "b", "x_", "_x", "é", "a b", "users", "author", "articles"}

func genCoherentTypes(r *rng, names []string) []jsonapi.Type {
	n := 1 + r.intn(4)
	used := map[string]bool{}
	var ts []jsonapi.Type
	for len(ts) < n {
		nm := pick(r, names)
		if nm == "" || used[nm] {
			if r.chance(1, 8) {
				break
			}
			continue
		}
		used[nm] = true
		ts = append(ts, jsonapi.Type{Name: nm, Rels: map[string]jsonapi.Rel{}})
	}
	if len(ts) == 0 {
		ts = append(ts, jsonapi.Type{Name: "t", Rels: map[string]jsonapi.Rel{}})
	}
	nrels := r.intn(6)
	for i := 0; i < nrels; i++ {
		a := r.intn(len(ts))
		b := r.intn(len(ts))
		fn := pick(r, names)
		tn := pick(r, names)
		if fn == "" {
			continue
		}
		if _, ok := ts[a].Rels[fn]; ok {
			continue
		}
		rel := jsonapi.Rel{FromType: ts[a].Name, FromName: fn, ToOne: r.bool(), ToType: ts[b].Name, ToName: tn, FromOne: r.bool()}
		if tn == "" || r.chance(1, 4) {
			rel.ToName = ""
			rel.FromOne = false
			ts[a].Rels[fn] = rel
			continue
		}
		if _, ok := ts[b].Rels[tn]; ok {
			continue
		}
		if a == b && fn == tn {
			continue
		}
		ts[a].Rels[fn] = rel
		ts[b].Rels[tn] = rel.Invert()
	}
	return ts
}

func genArbitraryTypes(r *rng, names []string) []jsonapi.Type {
	n := r.intn(4)
	var ts []jsonapi.Type
	for i := 0; i < n; i++ {
		t := jsonapi.Type{Name: pick(r, names), Rels: map[string]jsonapi.Rel{}}
		m := r.intn(4)
		for j := 0; j < m; j++ {
			rel := jsonapi.Rel{FromType: pick(r, names), FromName: pick(r, names), ToOne: r.bool(),
				ToType: pick(r, names), ToName: pick(r, names), FromOne: r.bool()}
			key := rel.FromName
			if r.chance(1, 5) {
				key = pick(r, names)
			}
			t.Rels[key] = rel
		}
		ts = append(ts, t)
	}
	return ts
}

func runC16(c *ctx) {
	// corpus first: past disagreements / design-phase witnesses
	c16Law(c, jsonapi.Rel{FromType: "ab", FromName: "c", ToOne: true, ToType: "a", ToName: "bc", FromOne: false}, "corpus F16a")
	c16Law(c, jsonapi.Rel{FromType: "a", FromName: "bc", ToOne: false, ToType: "ab", ToName: "c", FromOne: true}, "corpus F16a inverse")
	c16RelsCase(c, []jsonapi.Type{
		{Name: "a", Rels: map[string]jsonapi.Rel{"b_c": {FromType: "a", FromName: "b_c", ToType: "x"}}},
		{Name: "a_b", Rels: map[string]jsonapi.Rel{"c": {FromType: "a_b", FromName: "c", ToType: "x"}}},
		{Name: "x"},
	}, true)
	c16RelsCase(c, []jsonapi.Type{
		{Name: "a", Rels: map[string]jsonapi.Rel{"bc": {FromType: "a", FromName: "bc", ToType: "x"}}},
		{Name: "ab", Rels: map[string]jsonapi.Rel{"c": {FromType: "ab", FromName: "c", ToType: "x"}}},
		{Name: "x"},
	}, true)
	// two-way pairs whose ends coincide once type and name are joined by some separator
	for _, sep := range []string{"_", ".", "-", " ", "/", ":", ",", "\x00", ""} {
		for card := 0; card < 4; card++ {
			r := jsonapi.Rel{FromType: "a" + sep + "b", FromName: "c", ToOne: card&1 == 1, ToType: "a", ToName: "b" + sep + "c", FromOne: card&2 == 2}
			c16Law(c, r, "corpus joined ends")
			c16Law(c, r.Invert(), "corpus joined ends")
			c16RelsCase(c, []jsonapi.Type{
				{Name: r.FromType, Rels: map[string]jsonapi.Rel{r.FromName: r}},
				{Name: r.ToType, Rels: map[string]jsonapi.Rel{r.ToName: r.Invert()}},
			}, true)
		}
	}
	// exhaustive over the small alphabet
	for _, ft := range c16Names {
		for _, fn := range c16Names {
			for _, tt := range c16Names {
				for _, tn := range c16Names {
					for card := 0; card < 4; card++ {
						c16Law(c, jsonapi.Rel{FromType: ft, FromName: fn, ToOne: card&1 == 1, ToType: tt, ToName: tn, FromOne: card&2 == 2}, "exhaustive")
					}
				}
			}
		}
	}
	nl, ns := 400, 500
	if c.thorough() {
		nl, ns = 6000, 6000
	}
	for i := 0; i < nl; i++ {
		c16Law(c, jsonapi.Rel{FromType: pick(c.r, c16Long), FromName: pick(c.r, c16Long), ToOne: c.r.bool(),
			ToType: pick(c.r, c16Long), ToName: pick(c.r, c16Long), FromOne: c.r.bool()}, "random")
	}
	for i := 0; i < ns; i++ {
		names := c16Names
		if c.r.bool() {
			names = c16Long
		}
		if c.r.chance(3, 4) {
			c16RelsCase(c, genCoherentTypes(c.r, names), true)
		} else {
			c16RelsCase(c, genArbitraryTypes(c.r, names), false)
		}
	}
}

func init() {
	register("C16", []string{"Gen.TypeGo", "Gen.SchemaGo", "Model.Schema", "Model.C16"}, runC16)
}
