package main

// Types, soft resources and reflect.StructOf-built wrapped structs from one
// specification, plus their Gallina counterparts and value dictionaries.

import (
	"fmt"
	"math"
	"reflect"
	"sort"
	"strings"
	"time"

	"github.com/mfcochauxlaberge/jsonapi"
)

type fieldSpec struct {
	rel      bool
	name     string
	code     int
	nullable bool
	toOne    bool
	target   string
	inv      string
}

type typeSpec struct {
	name      string
	fields    []fieldSpec
	idLast    bool // struct-backed form declares the ID field after the others
	noFrom    bool // soft form leaves FromType of its relationships empty
	fromOther bool // soft form: relationships still carry the name of the type this one was copied from
}

func (t typeSpec) fieldNames() []string {
	var out []string
	for _, f := range t.fields {
		out = append(out, f.name)
	}
	sort.Strings(out)
	return out
}
func (t typeSpec) field(name string) *fieldSpec {
	for i := range t.fields {
		if t.fields[i].name == name {
			return &t.fields[i]
		}
	}
	return nil
}

// softType builds the jsonapi.Type through the library's own operations.
func (t typeSpec) softType() jsonapi.Type {
	typ := jsonapi.Type{Name: t.name}
	for _, f := range t.fields {
		if f.rel {
			from := t.name
			if t.noFrom {
				from = ""
			}
			if t.fromOther {
				from = "articles"
			}
			if f.target == "" {
				// a relationship without a target type: Type.AddRel refuses it, a type
				// written by hand (or extended through SoftResource.AddRel) may hold it
				if typ.Rels == nil {
					typ.Rels = map[string]jsonapi.Rel{}
				}
				typ.Rels[f.name] = jsonapi.Rel{FromType: from, FromName: f.name, ToOne: f.toOne, ToName: f.inv}
				continue
			}
			_ = typ.AddRel(jsonapi.Rel{FromType: from, FromName: f.name, ToOne: f.toOne, ToType: f.target, ToName: f.inv})
		} else {
			_ = typ.AddAttr(jsonapi.Attr{Name: f.name, Type: f.code, Nullable: f.nullable})
		}
	}
	return typ
}

var baseGoTypes = []reflect.Type{
	nil,
	reflect.TypeOf(""), reflect.TypeOf(int(0)), reflect.TypeOf(int8(0)), reflect.TypeOf(int16(0)), reflect.TypeOf(int32(0)),
	reflect.TypeOf(int64(0)), reflect.TypeOf(uint(0)), reflect.TypeOf(uint8(0)), reflect.TypeOf(uint16(0)), reflect.TypeOf(uint32(0)),
	reflect.TypeOf(uint64(0)), reflect.TypeOf(false), reflect.TypeOf(time.Time{}), reflect.TypeOf([]byte{}),
}

func goTypeOf(code int, nullable bool) reflect.Type {
	t := baseGoTypes[code]
	if nullable {
		return reflect.PointerTo(t)
	}
	return t
}

// structType builds the struct type of the specification: ID first, then one
// exported field per attribute / relationship.
func (t typeSpec) structType() reflect.Type {
	idf := reflect.StructField{
		Name: "ID", Type: reflect.TypeOf(""),
		Tag: reflect.StructTag(fmt.Sprintf(`json:"id" api:%q`, t.name)),
	}
	fs := []reflect.StructField{}
	if !t.idLast {
		fs = append(fs, idf)
	}
	for i, f := range t.fields {
		sf := reflect.StructField{Name: fmt.Sprintf("F%d", i)}
		if f.rel {
			if f.toOne {
				sf.Type = reflect.TypeOf("")
			} else {
				sf.Type = reflect.TypeOf([]string{})
			}
			api := "rel," + f.target
			if f.inv != "" {
				api += "," + f.inv
			}
			sf.Tag = reflect.StructTag(fmt.Sprintf(`json:%q api:%q`, f.name, api))
		} else {
			sf.Type = goTypeOf(f.code, f.nullable)
			sf.Tag = reflect.StructTag(fmt.Sprintf(`json:%q api:"attr"`, f.name))
		}
		fs = append(fs, sf)
	}
	if t.idLast {
		fs = append(fs, idf)
	}
	return reflect.StructOf(fs)
}

// tagSafe reports whether a name can be carried by a struct tag verbatim.
func tagSafe(s string) bool {
	if s == "" {
		return false
	}
	for i := 0; i < len(s); i++ {
		if s[i] < 0x20 || s[i] == '"' || s[i] == '\\' || s[i] == ',' || s[i] >= 0x7f {
			return false
		}
	}
	return true
}

func (t typeSpec) gType() string { return gType(t.softType()) }

func (t typeSpec) gDesc() string {
	idf := fmt.Sprintf("(mkSField \"ID\" (GTAttr 1 false) \"id\" %s true)", gStr(t.name))
	it := []string{}
	if !t.idLast {
		it = append(it, idf)
	}
	for i, f := range t.fields {
		if f.rel {
			api := "rel," + f.target
			if f.inv != "" {
				api += "," + f.inv
			}
			ty := "(GTAttr 1 false)"
			if !f.toOne {
				ty = "GTStrs"
			}
			it = append(it, fmt.Sprintf("(mkSField %s %s %s %s true)", gStr(fmt.Sprintf("F%d", i)), ty, gStr(f.name), gStr(api)))
		} else {
			it = append(it, fmt.Sprintf("(mkSField %s (GTAttr %s %s) %s \"attr\" true)", gStr(fmt.Sprintf("F%d", i)), gZ(f.code), gBool(f.nullable), gStr(f.name)))
		}
	}
	if t.idLast {
		it = append(it, idf)
	}
	return gList(it)
}

// newSoft / newWrapped create fresh resources of the type.
func (t typeSpec) newSoft() *jsonapi.SoftResource {
	typ := t.softType()
	return &jsonapi.SoftResource{Type: &typ}
}
func (t typeSpec) newWrapped() *jsonapi.Wrapper {
	return jsonapi.Wrap(reflect.New(t.structType()).Interface())
}

// ---------- value dictionaries ----------

func ptrTo(v any) any {
	p := reflect.New(reflect.TypeOf(v))
	p.Elem().Set(reflect.ValueOf(v))
	return p.Interface()
}

var dictStrings = []string{"", "a", "abc", "\x00", "a\x00b", "é", "日本語", "😀", "<>&", " ", "\"q\\", "a b", "null", "<nil>", "</script>", "ab", "b",
	// texts that look like JSON escapes once printed
	"\\u0026", "\\n", "\u2028", "a\\", "caf\ufffd", "\ufffd"}

func utcTime(sec int64, nsec int64) time.Time { return time.Unix(sec, nsec).UTC() }

var dictTimes = []time.Time{
	utcTime(0, 0), utcTime(1, 0), utcTime(1, 1), utcTime(1582979696, 123456789), utcTime(-62135596800, 0),
	utcTime(253402300799, 999999999), utcTime(1582979696, 500000000),
	time.Unix(1582979696, 0).In(time.FixedZone("", 5*3600+30*60)), time.Unix(1582979696, 7).In(time.FixedZone("", -23*3600-59*60)),
	time.Time{},
	// the same instants as the two zoned entries, in UTC
	utcTime(1582979696, 0), utcTime(1582979696, 7),
	// the last representable year, in a zone west of UTC
	time.Date(9999, 12, 31, 23, 30, 0, 123456789, time.FixedZone("", -2*3600)),
}

var dictBytes = [][]byte{{}, {0}, {1, 2}, {2, 1}, {1, 2, 3}, {255}, {97}, {97, 98, 99}, {1}, {1, 2, 0}}

func intEdges(code int) []any {
	mk := func(vals ...int64) []any {
		var out []any
		for _, v := range vals {
			switch code {
			case 2:
				out = append(out, int(v))
			case 3:
				out = append(out, int8(v))
			case 4:
				out = append(out, int16(v))
			case 5:
				out = append(out, int32(v))
			case 6:
				out = append(out, int64(v))
			}
		}
		return out
	}
	mku := func(vals ...uint64) []any {
		var out []any
		for _, v := range vals {
			switch code {
			case 7:
				out = append(out, uint(v))
			case 8:
				out = append(out, uint8(v))
			case 9:
				out = append(out, uint16(v))
			case 10:
				out = append(out, uint32(v))
			case 11:
				out = append(out, uint64(v))
			}
		}
		return out
	}
	switch code {
	case 2, 6:
		return mk(0, 1, -1, 2, math.MaxInt64, math.MinInt64, math.MaxInt64-1, math.MinInt64+1, 1<<31, -(1 << 31), 1<<53+1)
	case 3:
		return mk(0, 1, -1, 2, 127, -128, 126, -127)
	case 4:
		return mk(0, 1, -1, 2, 32767, -32768, 32766, 255, 256)
	case 5:
		return mk(0, 1, -1, 2, math.MaxInt32, math.MinInt32, 65535, 65536)
	case 7, 11:
		return mku(0, 1, 2, math.MaxUint64, math.MaxUint64-1, 1<<63, 1<<63-1, 1<<63+1, 1<<32)
	case 8:
		return mku(0, 1, 2, 255, 254, 128)
	case 9:
		return mku(0, 1, 2, 65535, 65534, 256)
	case 10:
		return mku(0, 1, 2, math.MaxUint32, 1<<31, 65536)
	}
	return nil
}

// dictValues returns base (non-pointer) values of a kind.
func dictValues(code int) []any {
	switch code {
	case 1:
		out := make([]any, len(dictStrings))
		for i, s := range dictStrings {
			out[i] = s
		}
		return out
	case 12:
		return []any{false, true}
	case 13:
		out := make([]any, len(dictTimes))
		for i, s := range dictTimes {
			out[i] = s
		}
		return out
	case 14:
		out := make([]any, len(dictBytes))
		for i, s := range dictBytes {
			out[i] = append([]byte{}, s...)
		}
		return out
	}
	return intEdges(code)
}

// randValue draws a well-typed value for an attribute (typed nil and, when
// allowUntyped, untyped nil for nullable kinds).
func randValue(r *rng, code int, nullable bool, allowUntyped bool) any {
	d := dictValues(code)
	v := pick(r, d)
	if !nullable {
		return v
	}
	switch r.intn(6) {
	case 0:
		return reflect.Zero(goTypeOf(code, true)).Interface()
	case 1:
		if allowUntyped {
			return nil
		}
	}
	return ptrTo(v)
}

var dictIDs = []string{"", "1", "2", "10", "abc", "a b", "é", "x\"y", "<1>", "😀", "0", "id", "a\x01b\x7f", "t\tn\nq", " lead", "trail ", "007", "a,b", "."}

func randIDs(r *rng) []string {
	n := pick(r, []int{0, 0, 1, 2, 3, 5, 12, 20})
	out := make([]string, 0, n)
	for i := 0; i < n; i++ {
		out = append(out, pick(r, dictIDs))
	}
	if r.chance(1, 8) {
		return nil
	}
	return out
}

var fieldNamePool = []string{"a", "b", "ab", "name", "n1", "x-y", "x_y", "é", "A", "meta", "type", "links", "z", "zz", "a.b", "a,b"}

// randTypeSpec draws a type with up to maxFields distinct field names.
func randTypeSpec(r *rng, name string, maxFields int, targets []string) typeSpec {
	t := typeSpec{name: name}
	used := map[string]bool{"id": true}
	n := r.intn(maxFields + 1)
	for len(t.fields) < n {
		nm := pick(r, fieldNamePool)
		if used[nm] {
			if r.chance(1, 6) {
				break
			}
			continue
		}
		used[nm] = true
		if r.chance(1, 4) {
			f := fieldSpec{rel: true, name: nm, toOne: r.bool(), target: pick(r, targets)}
			if r.chance(1, 3) {
				f.inv = pick(r, fieldNamePool[:15]) // the api tag is comma-separated
			}
			t.fields = append(t.fields, f)
		} else {
			t.fields = append(t.fields, fieldSpec{name: nm, code: 1 + r.intn(14), nullable: r.bool()})
		}
	}
	t.idLast = len(t.fields) > 0 && r.chance(1, 4)
	t.noFrom = r.chance(1, 5)
	return t
}

// allKindsSpec has one attribute per kind and nullability plus both cardinalities.
func allKindsSpec(name string, target string) typeSpec {
	t := typeSpec{name: name}
	for code := 1; code <= 14; code++ {
		for _, n := range []bool{false, true} {
			nm := kindNames[code]
			if n {
				nm = "n" + nm
			}
			t.fields = append(t.fields, fieldSpec{name: nm, code: code, nullable: n})
		}
	}
	t.fields = append(t.fields, fieldSpec{rel: true, name: "one", toOne: true, target: target, inv: "inv1"})
	t.fields = append(t.fields, fieldSpec{rel: true, name: "many", toOne: false, target: target})
	return t
}

func descValue(v any) string {
	if v == nil {
		return "nil"
	}
	if k, isPtr, isNil, inner := deref(v); isPtr {
		if isNil {
			return "(*" + kindNames[k] + ")(nil)"
		}
		return "&" + descValue(inner)
	}
	switch x := v.(type) {
	case string:
		return fmt.Sprintf("%q", x)
	case time.Time:
		return x.Format(time.RFC3339Nano)
	case []byte:
		if x == nil {
			return "[]byte(nil)"
		}
		return fmt.Sprintf("%v", x)
	case []string:
		if x == nil {
			return "[]string(nil)"
		}
		return fmt.Sprintf("%q", x)
	}
	return strings.TrimSpace(fmt.Sprintf("%T(%v)", v, v))
}

// ptrNil returns the typed nil pointer of a kind.
func ptrNil(code int) any { return reflect.Zero(goTypeOf(code, true)).Interface() }
