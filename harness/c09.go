package main

import (
	"fmt"
	"reflect"
	"sort"
	"strings"

	"github.com/mfcochauxlaberge/jsonapi"
)

type c09Scenario struct {
	t       typeSpec
	colKind string // soft-collection, wrapper-collection, resources-soft, resources-wrapped
	items   [][]setOp
	ids     []string
	filter  *ftree
	rules   []string
	size    uint
}

func (s c09Scenario) wrapped() bool {
	return s.colKind == "wrapper-collection" || s.colKind == "resources-wrapped"
}

func (s c09Scenario) build() jsonapi.Collection {
	switch s.colKind {
	case "soft-collection":
		typ := s.t.softType()
		col := &jsonapi.SoftCollection{}
		col.SetType(&typ)
		for _, ops := range s.items {
			col.Add(buildRes(s.t, false, ops))
		}
		return col
	case "wrapper-collection":
		col := jsonapi.WrapCollection(s.t.newWrapped())
		for _, ops := range s.items {
			col.Add(buildRes(s.t, true, ops))
		}
		return col
	default:
		col := &jsonapi.Resources{}
		for _, ops := range s.items {
			col.Add(buildRes(s.t, s.wrapped(), ops))
		}
		return col
	}
}

func (s c09Scenario) gallinaItems() string {
	var it []string
	for _, ops := range s.items {
		it = append(it, gPair(gNewRes(s.t, s.wrapped()), gOps(ops)))
	}
	return gList(it)
}

func ruleName(r string) (string, bool) {
	if strings.HasPrefix(r, "-") {
		return r[1:], true
	}
	return r, false
}

func hasIDRule(rules []string) bool {
	if len(rules) == 0 {
		return true
	}
	for _, r := range rules {
		if n, _ := ruleName(r); n == "id" {
			return true
		}
	}
	return false
}

// refCompare: the order the property text defines for one rule (all kinds).
func refCompare(t typeSpec, rule string, a, b jsonapi.Resource) int {
	n, inv := ruleName(rule)
	var c int
	if n == "id" {
		c = strings.Compare(a.Get("id").(string), b.Get("id").(string))
	} else {
		va, vb := canonGo(a.Get(n)), canonGo(b.Get(n))
		switch {
		case va == nil && vb == nil:
			c = 0
		case va == nil:
			c = -1
		case vb == nil:
			c = 1
		default:
			cc, ordered, _ := cmpValues(va, vb)
			if ordered {
				c = cc
			} else if x, ok := va.(bool); ok {
				y := vb.(bool)
				switch {
				case x == y:
					c = 0
				case !x:
					c = -1
				default:
					c = 1
				}
			} else if _, isPtr, _, ia := deref(va); isPtr {
				_, _, _, ib := deref(vb)
				if x, ok := ia.(bool); ok {
					y := ib.(bool)
					switch {
					case x == y:
						c = 0
					case !x:
						c = -1
					default:
						c = 1
					}
				}
			}
		}
	}
	if inv {
		c = -c
	}
	return c
}

func unorderedKind(t typeSpec, rule string) bool {
	n, _ := ruleName(rule)
	f := t.field(n)
	if f == nil || f.rel {
		return false
	}
	return (f.code == 11) || (f.code == 14 && f.nullable)
}

func refLess(t typeSpec, rules []string, a, b jsonapi.Resource) bool {
	if len(rules) == 0 {
		rules = []string{"id"}
	}
	for _, r := range rules {
		if c := refCompare(t, r, a, b); c != 0 {
			return c < 0
		}
		if n, _ := ruleName(r); n == "id" {
			return false
		}
	}
	return false
}

func keyOf(t typeSpec, rules []string, r jsonapi.Resource, skipUnordered bool) string {
	var parts []string
	for _, rule := range rules {
		n, _ := ruleName(rule)
		if n == "id" {
			continue
		}
		if skipUnordered && unorderedKind(t, rule) {
			continue
		}
		v := r.Get(n)
		if v == nil {
			if f := t.field(n); f != nil && !f.rel {
				v = jsonapi.GetZeroValue(f.code, f.nullable)
			}
		}
		if b, ok := v.([]byte); ok && b == nil {
			v = []byte{} // Less compares byte strings by content: nil and empty tie
		}
		parts = append(parts, oValue(v))
	}
	return strings.Join(parts, " ")
}

func pageObs(s c09Scenario, page jsonapi.Collection, withIDs bool) string {
	var it []string
	for i := 0; i < page.Len(); i++ {
		r := page.At(i)
		var parts []string
		if withIDs {
			parts = append(parts, oS(r.Get("id").(string)))
		}
		for _, rule := range s.rules {
			n, _ := ruleName(rule)
			if n == "id" || unorderedKind(s.t, rule) {
				continue
			}
			v := r.Get(n)
			if v == nil {
				if f := s.t.field(n); f != nil && !f.rel {
					v = jsonapi.GetZeroValue(f.code, f.nullable)
				}
			}
			if b, ok := v.([]byte); ok && b == nil {
				v = []byte{}
			}
			parts = append(parts, oValue(v))
		}
		it = append(it, oL(parts))
	}
	return oL(it)
}

func idsOf(c jsonapi.Collection) []string {
	var out []string
	for i := 0; i < c.Len(); i++ {
		out = append(out, c.At(i).Get("id").(string))
	}
	return out
}

func c09Run(c *ctx, s c09Scenario, how string) {
	withIDs := hasIDRule(s.rules)
	var flt *jsonapi.Filter
	gflt := "None"
	if s.filter != nil {
		flt = s.filter.goFilter()
		gflt = "(Some " + s.filter.gallina() + ")"
	}
	// ---------- reference result, from the property text ----------
	var key, detail string
	var expected []jsonapi.Resource
	p0, pv0 := guard(func() {
		col := s.build()
		for i := 0; i < col.Len(); i++ {
			r := col.At(i)
			if len(s.ids) > 0 {
				found := false
				for _, id := range s.ids {
					if id == r.Get("id").(string) {
						found = true
					}
				}
				if !found {
					continue
				}
			}
			if s.filter != nil && !semFilter(s.filter, r) {
				continue
			}
			expected = append(expected, r)
		}
		sort.SliceStable(expected, func(i, j int) bool { return refLess(s.t, s.rules, expected[i], expected[j]) })
	})
	if p0 {
		panic(fmt.Sprint("reference failed: ", pv0))
	}
	total := len(expected)
	npages := 1
	if s.size > 0 && uint(total)/s.size < 1000 {
		npages = int(uint(total)/s.size) + 2
	}
	var allGot []jsonapi.Resource
	usesUnordered := false
	for _, r := range s.rules {
		if unorderedKind(s.t, r) {
			usesUnordered = true
		}
	}
	fail := func(k, d string) {
		if key == "" {
			if usesUnordered && k == "page-order" {
				k = "less-skips-uint64-family"
			}
			key, detail = k, d
		}
	}
	var descs []string
	for _, ops := range s.items {
		var d []string
		for _, o := range ops {
			d = append(d, fmt.Sprintf("%s=%s", o.key, descValue(o.val)))
		}
		descs = append(descs, "{"+strings.Join(d, " ")+"}")
	}
	fdesc := "nil"
	if s.filter != nil {
		fdesc = s.filter.String()
	}
	base := fmt.Sprintf("%s n=%d ids=%q filter=%s rules=%q size=%d items=%s", s.colKind, len(s.items), s.ids, fdesc, s.rules, s.size, strings.Join(descs, " "))
	var first *caseRec
	for num := 0; num < npages; num++ {
		col := s.build()
		before := idsOf(col)
		var page jsonapi.Collection
		p, pv := guard(func() { page = jsonapi.Range(col, s.ids, flt, s.rules, s.size, uint(num)) })
		obs := oPanic()
		if p {
			fail("range-panics", fmt.Sprintf("page %d: %v", num, pv))
		} else {
			if page == nil || reflect.ValueOf(page).IsNil() {
				fail("range-returns-nil", fmt.Sprintf("page %d", num))
			} else {
				obs = pageObs(s, page, withIDs)
				for i := 0; i < page.Len(); i++ {
					allGot = append(allGot, page.At(i))
				}
				// the page is the window [num*size, (num+1)*size) of the expected order
				lo, hi := 0, 0
				if s.size > 0 && uint(num) <= uint(total)/s.size {
					lo = int(uint(num) * s.size)
					if uint(total-lo) < s.size {
						hi = total
					} else {
						hi = lo + int(s.size)
					}
				}
				if page.Len() != hi-lo {
					fail("page-size", fmt.Sprintf("page %d has %d elements, window has %d", num, page.Len(), hi-lo))
				} else {
					for i := 0; i < page.Len(); i++ {
						e := expected[lo+i]
						g := page.At(i)
						if withIDs && e.Get("id") != g.Get("id") {
							fail("page-order", fmt.Sprintf("page %d position %d: %q, expected %q", num, i, g.Get("id"), e.Get("id")))
						}
						if keyOf(s.t, s.rules, e, false) != keyOf(s.t, s.rules, g, false) {
							fail("page-order", fmt.Sprintf("page %d position %d: keys %s, expected %s", num, i, keyOf(s.t, s.rules, g, false), keyOf(s.t, s.rules, e, false)))
						}
					}
				}
			}
			if !reflect.DeepEqual(before, idsOf(col)) {
				fail("input-collection-changed", fmt.Sprintf("%q became %q", before, idsOf(col)))
			}
		}
		feature := fmt.Sprintf("%s n=%d rules=%d id=%v filter=%v ids=%v size=%d page=%d", s.colKind, min(len(s.items), 13), len(s.rules), withIDs, s.filter != nil, len(s.ids) > 0, min(int(s.size%1000), 20), min(num, 3))
		k := c.add("range", fmt.Sprintf("page %d of %s", num, base), feature, len(s.items) == 0,
			fmt.Sprintf("(run_range %s %s %s %s %s %s %s)", s.gallinaItems(), gStrs(s.ids), gflt, gStrs(s.rules), gZ(s.size), gZ(num), gBool(withIDs)),
			obs, "", "")
		k.Replay = how
		if first == nil {
			first = k
		}
	}
	// consecutive pages partition the matching resources
	if s.size > 0 && key == "" {
		a, b := []string{}, []string{}
		for _, r := range allGot {
			a = append(a, r.Get("id").(string))
		}
		for _, r := range expected {
			b = append(b, r.Get("id").(string))
		}
		sort.Strings(a)
		sort.Strings(b)
		if !reflect.DeepEqual(a, b) {
			fail("pages-do-not-partition", fmt.Sprintf("pages hold %q, matching resources are %q", a, b))
		}
	}
	// same result for every initial order when the rules include id
	if withIDs && key == "" && len(s.items) > 1 {
		sh := s
		sh.items = append([][]setOp{}, s.items...)
		shuffle(c.r, sh.items)
		if p, pv := guard(func() {
			g1 := jsonapi.Range(s.build(), s.ids, flt, s.rules, s.size, 0)
			g2 := jsonapi.Range(sh.build(), s.ids, flt, s.rules, s.size, 0)
			if !reflect.DeepEqual(idsOf(g1), idsOf(g2)) {
				fail("result-depends-on-initial-order", fmt.Sprintf("%q vs %q", idsOf(g1), idsOf(g2)))
			}
		}); p {
			fail("range-panics", fmt.Sprintf("on the collection in another initial order: %v", pv))
		}
	}
	// the rule list is the caller's: it means the same the next time it is used, and so does a
	// longer list that shares its storage; a page that Range returned can be given to Range again
	if key == "" {
		if p, pv := guard(func() {
			// a rule list with spare capacity, and a longer one built from it beforehand (they share storage)
			buf := make([]string, len(s.rules), len(s.rules)+3)
			copy(buf, s.rules)
			longer := append(buf, "-id")
			want := append(append([]string{}, s.rules...), "-id")
			p1 := jsonapi.Range(s.build(), s.ids, flt, buf, s.size, 0)
			// the same list again gives the same page, the longer list what a list written afresh gives
			if p1b := jsonapi.Range(s.build(), s.ids, flt, buf, s.size, 0); !reflect.DeepEqual(idsOf(p1), idsOf(p1b)) {
				fail("rules-changed", fmt.Sprintf("the rule list %q, used a second time (now %q), gives %q instead of %q", s.rules, buf, idsOf(p1b), idsOf(p1)))
			}
			pl, pw := jsonapi.Range(s.build(), s.ids, flt, longer, s.size, 0), jsonapi.Range(s.build(), s.ids, flt, want, s.size, 0)
			if !reflect.DeepEqual(idsOf(pl), idsOf(pw)) {
				fail("rules-changed", fmt.Sprintf("a rule list built from %q before it was used reads %q after Range and gives %q instead of %q", s.rules, longer, idsOf(pl), idsOf(pw)))
			}
			if p1 != nil && withIDs {
				// already selected, filtered and sorted: sorting it again by the same rules changes nothing
				again := jsonapi.Range(p1, nil, nil, s.rules, 1000, 0)
				if s.size >= 1000 || uint(p1.Len()) <= 1000 {
					if !reflect.DeepEqual(idsOf(again), idsOf(p1)) {
						fail("range-of-range-differs", fmt.Sprintf("%q, ranged again %q", idsOf(p1), idsOf(again)))
					}
				}
			}
		}); p {
			fail("range-panics", fmt.Sprintf("with a rule list that has spare capacity, or on a page Range returned: %v", pv))
		}
	}
	// the returned collection is the caller's: what is done to one result never shows in a later one
	if key == "" && len(s.items) > 0 {
		if p, pv := guard(func() {
			for _, sz := range []uint{0, 5} {
				p1 := jsonapi.Range(s.build(), []string{"no-such-id"}, flt, s.rules, sz, 0)
				if p1 == nil || p1.Len() != 0 {
					return
				}
				p1.Add(s.build().At(0))
				if p2 := jsonapi.Range(s.build(), []string{"no-such-id"}, flt, s.rules, sz, 0); p2 == nil || p2.Len() != 0 {
					fail("page-not-fresh", fmt.Sprintf("an empty page (size %d) that the caller added a resource to came back as the next empty result", sz))
				}
			}
			full1 := jsonapi.Range(s.build(), nil, nil, []string{"id"}, 100, 0)
			n1 := full1.Len()
			full1.Add(s.build().At(0))
			if full2 := jsonapi.Range(s.build(), nil, nil, []string{"id"}, 100, 0); full2.Len() != n1 {
				fail("page-not-fresh", "a page the caller added a resource to changed the next result")
			}
		}); p {
			fail("range-panics", fmt.Sprint(pv))
		}
	}
	if key != "" && first != nil {
		first.FailKey, first.PropFail = key, key+": "+detail
	}
	c.count("col:" + s.colKind)
}

func c09RandScenario(r *rng) c09Scenario {
	t := allKindsSpec("alltypes", "other")
	if r.chance(1, 3) {
		t = randTypeSpec(r, "t", 5, []string{"other"})
		if r.bool() && t.field("x-y") == nil {
			// a hyphen inside an attribute name
			t.fields = append(t.fields, fieldSpec{name: "x-y", code: pick(r, []int{1, 2, 12, 13}), nullable: r.chance(1, 3)})
		}
	}
	s := c09Scenario{t: t, colKind: pick(r, []string{"soft-collection", "wrapper-collection", "resources-soft", "resources-wrapped"})}
	n := pick(r, []int{0, 1, 2, 3, 5, 11, 12, 13, 20})
	var attrs []fieldSpec
	for _, f := range t.fields {
		if !f.rel {
			attrs = append(attrs, f)
		}
	}
	// few distinct values per attribute: many ties
	vals := map[string][]any{}
	for _, f := range attrs {
		d := dictValues(f.code)
		k := 1 + r.intn(3)
		for i := 0; i < k; i++ {
			v := pick(r, d)
			if f.nullable {
				if r.chance(1, 3) {
					v = ptrNil(f.code)
				} else {
					v = ptrTo(v)
				}
			}
			vals[f.name] = append(vals[f.name], v)
		}
	}
	for i := 0; i < n; i++ {
		ops := []setOp{{"id", fmt.Sprintf("%c%d", 'a'+byte(r.intn(3)), (i*7)%n)}}
		for _, f := range attrs {
			if r.chance(4, 5) {
				ops = append(ops, setOp{f.name, pick(r, vals[f.name])})
			}
		}
		s.items = append(s.items, ops)
	}
	// unique ids
	seen := map[string]bool{}
	for i := range s.items {
		id := s.items[i][0].val.(string)
		for seen[id] {
			id += "x"
		}
		seen[id] = true
		s.items[i][0].val = id
	}
	if r.chance(1, 3) && n > 1 {
		// IDs that differ from another member's only by surrounding white space
		for i := range s.items {
			if r.chance(1, 3) {
				id := pick(r, []string{" ", "", "\t"}) + s.items[r.intn(n)][0].val.(string) + pick(r, []string{" ", "", "\n"})
				if !seen[id] {
					seen[id] = true
					s.items[i][0].val = id
				}
			}
		}
	}
	if r.chance(1, 3) && n > 0 {
		for i := range s.items {
			if r.bool() {
				s.ids = append(s.ids, s.items[i][0].val.(string))
			}
		}
		if r.chance(1, 4) {
			s.ids = append(s.ids, "absent")
		}
		if r.chance(1, 3) {
			// padded variant of a member's ID; the list stays duplicate-free (the property is about ID subsets)
			id := pick(r, []string{" ", "\n", ""}) + s.items[r.intn(n)][0].val.(string) + pick(r, []string{" ", "\t"})
			dup := false
			for _, x := range s.ids {
				dup = dup || x == id
			}
			if !dup {
				s.ids = append(s.ids, id)
			}
		}
	}
	if r.chance(1, 3) && len(t.fields) > 0 {
		s.filter = randFilterTree(r, t, pick(r, []int{0, 1, 2}))
	}
	nr := r.intn(4)
	for i := 0; i < nr && len(attrs) > 0; i++ {
		rule := pick(r, attrs).name
		if r.chance(1, 6) {
			rule = "id"
		}
		if r.bool() {
			rule = "-" + rule
		}
		dup := false
		for _, x := range s.rules {
			if strings.TrimPrefix(x, "-") == strings.TrimPrefix(rule, "-") {
				dup = true
			}
		}
		if !dup {
			s.rules = append(s.rules, rule)
		}
	}
	if r.chance(2, 3) && !hasIDRule(s.rules) {
		if r.bool() {
			s.rules = append(s.rules, "id")
		} else {
			s.rules = append(s.rules, "-id")
		}
	}
	s.size = uint(pick(r, []int{0, 1, 2, 3, 5, n, n + 1, 100}))
	if n > 1 && r.chance(1, 4) {
		s.size = uint(n - 1)
	}
	if r.chance(1, 12) {
		s.size = pick(r, []uint{1 << 62, 1<<63 - 1, 1 << 63, 1<<64 - 1})
	}
	return s
}

func runC09(c *ctx) {
	all := allKindsSpec("alltypes", "other")
	// every kind as the first rule, ascending and descending, on both implementations
	for _, f := range all.fields {
		if f.rel {
			continue
		}
		for _, kind := range []string{"resources-soft", "resources-wrapped"} {
			for _, desc := range []bool{false, true} {
				s := c09Scenario{t: all, colKind: kind, size: 3}
				d := dictValues(f.code)
				// a stride that walks the whole dictionary (5 would visit two entries of a ten-entry one)
				stride := 5
				for _, st := range []int{5, 3, 7, 1} {
					g, x := st, len(d)
					for x != 0 {
						g, x = x, g%x
					}
					if g == 1 {
						stride = st
						break
					}
				}
				for i := 0; i < 7; i++ {
					v := d[(i*stride)%len(d)]
					if f.nullable {
						if i%3 == 1 {
							v = ptrNil(f.code)
						} else {
							v = ptrTo(v)
						}
					}
					s.items = append(s.items, []setOp{{"id", fmt.Sprintf("r%d", (i*3)%7)}, {f.name, v}})
				}
				rule := f.name
				if desc {
					rule = "-" + rule
				}
				s.rules = []string{rule, "id"}
				c09Run(c, s, "kind-sweep")
			}
		}
	}
	// ties that only show when values are compared as values: the same instant in
	// two zones, equal byte strings held nil and empty, equal numbers
	for _, f := range all.fields {
		if f.rel || f.code != 13 {
			continue
		}
		for _, kind := range []string{"resources-soft", "resources-wrapped"} {
			d := dictValues(13)
			s := c09Scenario{t: all, colKind: kind, size: 10}
			for i, idx := range []int{7, 10, 8, 11, 10, 7} {
				v := d[idx%len(d)]
				if f.nullable {
					v = ptrTo(v)
				}
				s.items = append(s.items, []setOp{{"id", fmt.Sprintf("r%d", 9-i)}, {f.name, v}})
			}
			s.rules = []string{f.name, "id"}
			c09Run(c, s, "tie-sweep")
			s.rules = []string{"-" + f.name, "-id"}
			c09Run(c, s, "tie-sweep")
		}
	}
	n := 150
	if c.thorough() {
		n = 3000
	}
	for i := 0; i < n; i++ {
		c09Run(c, c09RandScenario(c.r), "random")
	}
}

func init() {
	register("C09", []string{"Model.GoTime", "Gen.TypeGo", "Gen.FilterGo", "Model.Schema", "Model.Value", "Model.SoftRes", "Model.Wrapper", "Model.Resource", "Model.Filter", "Model.Range", "Model.C17", "Model.C09"}, runC09)
}
