package main

import (
	"fmt"
	"reflect"
	"sort"
	"strings"
	"time"

	"github.com/mfcochauxlaberge/jsonapi"
)

type sfieldSpec struct {
	name    string
	typ     reflect.Type
	jsonTag string
	hasJSON bool
	apiTag  string
	hasAPI  bool
}

func (f sfieldSpec) tag() reflect.StructTag {
	var parts []string
	if f.hasJSON {
		parts = append(parts, fmt.Sprintf(`json:%q`, f.jsonTag))
	}
	if f.hasAPI {
		parts = append(parts, fmt.Sprintf(`api:%q`, f.apiTag))
	}
	return reflect.StructTag(strings.Join(parts, " "))
}

func gGoType(t reflect.Type) string {
	for code := 1; code <= 14; code++ {
		if t == baseGoTypes[code] {
			return fmt.Sprintf("(GTAttr %s false)", gZ(code))
		}
		if t == reflect.PointerTo(baseGoTypes[code]) {
			return fmt.Sprintf("(GTAttr %s true)", gZ(code))
		}
	}
	if t == reflect.TypeOf([]string{}) {
		return "GTStrs"
	}
	return "(GTOther " + gStr(t.String()) + ")"
}

func gStructDesc(fs []sfieldSpec) string {
	var it []string
	for _, f := range fs {
		it = append(it, fmt.Sprintf("(mkSField %s %s %s %s true)", gStr(f.name), gGoType(f.typ), gStr(f.jsonTag), gStr(f.apiTag)))
	}
	return gList(it)
}

func c20Case(c *ctx, fs []sfieldSpec, byValue bool, how string) {
	var sfs []reflect.StructField
	for _, f := range fs {
		sfs = append(sfs, reflect.StructField{Name: f.name, Type: f.typ, Tag: f.tag()})
	}
	var st reflect.Type
	if p, _ := guard(func() { st = reflect.StructOf(sfs) }); p {
		return // not a struct type Go can build at run time (duplicate field names ...)
	}
	names := []string{"id", "nope"}
	seen := map[string]bool{"id": true, "nope": true}
	for _, f := range fs {
		if f.jsonTag != "" && !seen[f.jsonTag] {
			seen[f.jsonTag] = true
			names = append(names, f.jsonTag)
		}
	}
	sort.Strings(names)
	var key, detail string
	ptr := reflect.New(st)
	var arg any = ptr.Interface()
	if byValue {
		arg = ptr.Elem().Interface()
	}
	fail := func(k, d string) {
		if key == "" {
			key, detail = k, d
		}
	}
	var checkErr error
	if p, pv := guard(func() { checkErr = jsonapi.Check(ptr.Elem().Interface()) }); p {
		// Check answers with an error, it does not panic; what follows treats the struct as rejected
		fail("check-panics", fmt.Sprint(pv))
		checkErr = fmt.Errorf("Check panicked: %v", pv)
	}
	// BuildType
	var typ jsonapi.Type
	var berr error
	bobs := ""
	pb, pvb := guard(func() { typ, berr = jsonapi.BuildType(arg) })
	switch {
	case pb:
		bobs = oPanic()
		if checkErr == nil {
			fail("accepted-struct-buildtype-panics", fmt.Sprint(pvb))
		}
	case berr != nil:
		bobs = oC("err")
		if checkErr == nil {
			fail("accepted-struct-buildtype-fails", berr.Error())
		}
	default:
		bobs = oOk(oType(typ))
		if checkErr != nil {
			fail("rejected-struct-buildtype-succeeds", checkErr.Error())
		}
	}
	// Wrap and the Resource methods
	wobs := ""
	var w *jsonapi.Wrapper
	pw, pvw := guard(func() { w = jsonapi.Wrap(reflect.New(st).Interface()) })
	if pw {
		wobs = oPanic()
		if checkErr == nil {
			fail("accepted-struct-wrap-panics", fmt.Sprint(pvw))
		} else if !strings.Contains(fmt.Sprint(pvw), "invalid struct") {
			fail("rejected-struct-wrap-other-panic", fmt.Sprint(pvw))
		}
	} else {
		if checkErr != nil {
			fail("rejected-struct-wrap-succeeds", checkErr.Error())
		}
		var gets, sets []string
		for _, n := range names {
			var v any
			p, pv := guard(func() { v = w.Get(n) })
			if p {
				gets = append(gets, oPanic())
				if _, declared := w.Attrs()[n]; declared || n == "id" {
					fail("accepted-struct-get-panics", fmt.Sprintf("%s: %v", n, pv))
				}
				if _, declared := w.Rels()[n]; declared {
					fail("accepted-struct-get-panics", fmt.Sprintf("%s: %v", n, pv))
				}
			} else {
				_, da := w.Attrs()[n]
				_, dr := w.Rels()[n]
				if da || dr || n == "id" {
					gets = append(gets, oOk(oValue(v)))
				} else {
					gets = append(gets, oC("ok")) // not a declared field: only the outcome is compared
				}
			}
		}
		for _, n := range names {
			var zero any
			for _, f := range fs {
				if f.jsonTag == n {
					zero = reflect.Zero(f.typ).Interface()
					break
				}
			}
			w2 := jsonapi.Wrap(reflect.New(st).Interface())
			p, pv := guard(func() { w2.Set(n, zero) })
			if p {
				sets = append(sets, oPanic())
				_, da := w2.Attrs()[n]
				_, dr := w2.Rels()[n]
				if da || dr {
					fail("accepted-struct-set-panics", fmt.Sprintf("%s: %v", n, pv))
				}
			} else {
				sets = append(sets, oC("ok"))
			}
		}
		w3 := jsonapi.Wrap(reflect.New(st).Interface())
		pid, pvid := guard(func() { w3.Set("id", "x") })
		idobs := oC("ok")
		if pid {
			idobs = oPanic()
			fail("accepted-struct-set-id-panics", fmt.Sprint(pvid))
		} else if w3.Get("id") != "x" {
			fail("accepted-struct-id-not-stored", fmt.Sprint(w3.Get("id")))
		}
		// Copy of the (zero-valued) instance: outcome and what the copy reads
		cobs := ""
		if p, pv := guard(func() { cobs = oOk(oStruct(w.Copy())) }); p {
			cobs = oPanic()
			fail("accepted-struct-copy-panics", fmt.Sprint(pv))
		}
		wobs = oC("ok", oStruct(w), oL(gets), oL(sets), idobs, cobs)
		// copies, new instances, marshaling
		if p, pv := guard(func() {
			_ = w.Copy()
			_ = w.New()
			var all []string
			for k := range w.Attrs() {
				all = append(all, k)
			}
			var rels []string
			for k := range w.Rels() {
				all = append(all, k)
				rels = append(rels, k)
			}
			_ = jsonapi.MarshalResource(w, "/", all, map[string][]string{w.GetType().Name: rels})
		}); p {
			fail("accepted-struct-copy-new-marshal-panics", fmt.Sprint(pv))
		}
		// the built type is what the tags and Go types declare, and what the wrapper reports
		if berr == nil && !pb {
			want := jsonapi.Type{Attrs: map[string]jsonapi.Attr{}, Rels: map[string]jsonapi.Rel{}}
			for _, f := range fs {
				if f.name == "ID" {
					want.Name = f.apiTag
					continue
				}
				if f.apiTag == "attr" {
					for code := 1; code <= 14; code++ {
						if f.typ == baseGoTypes[code] {
							want.Attrs[f.jsonTag] = jsonapi.Attr{Name: f.jsonTag, Type: code}
						}
						if f.typ == reflect.PointerTo(baseGoTypes[code]) {
							want.Attrs[f.jsonTag] = jsonapi.Attr{Name: f.jsonTag, Type: code, Nullable: true}
						}
					}
				}
				if f.apiTag == "rel" || strings.HasPrefix(f.apiTag, "rel,") {
					parts := strings.Split(f.apiTag, ",")
					r := jsonapi.Rel{FromType: want.Name, FromName: f.jsonTag, ToOne: f.typ == reflect.TypeOf("")}
					if len(parts) > 1 {
						r.ToType = parts[1]
					}
					if len(parts) > 2 {
						r.ToName = parts[2]
					}
					want.Rels[f.jsonTag] = r
				}
			}
			for k, r := range want.Rels {
				r.FromType = want.Name
				want.Rels[k] = r
			}
			if typ.Name != want.Name || !reflect.DeepEqual(typ.Attrs, want.Attrs) || !reflect.DeepEqual(typ.Rels, want.Rels) {
				fail("built-type-not-declared-type", fmt.Sprintf("built %+v, declared %+v", typ, want))
			}
			if !reflect.DeepEqual(w.Attrs(), typ.Attrs) || !reflect.DeepEqual(w.Rels(), typ.Rels) || w.GetType().Name != typ.Name {
				fail("wrapper-type-differs-from-built-type", "")
			}
			// copies and new instances report the same structure, and editing what one of them
			// reports (a Type value, an Attrs / Rels map) does not reach the wrapper they came from
			if p, pv := guard(func() {
				for _, other := range []jsonapi.Resource{w.Copy(), w.New(), typ.New()} {
					if !reflect.DeepEqual(other.Attrs(), typ.Attrs) || !reflect.DeepEqual(other.Rels(), typ.Rels) {
						fail("wrapper-type-differs-from-built-type", "a copy / new instance reports another structure")
					}
					ot := other.GetType()
					for n := range ot.Attrs {
						ot.RemoveAttr(n)
						break
					}
					for n := range ot.Rels {
						ot.RemoveRel(n)
						break
					}
					_ = ot.AddAttr(jsonapi.Attr{Name: "via-gettype", Type: jsonapi.AttrTypeInt})
					am, rm := other.Attrs(), other.Rels()
					for n := range am {
						delete(am, n)
					}
					for n := range rm {
						delete(rm, n)
					}
				}
				bt2, err2 := jsonapi.BuildType(reflect.New(st).Interface())
				if err2 != nil || !reflect.DeepEqual(w.Attrs(), bt2.Attrs) || !reflect.DeepEqual(w.Rels(), bt2.Rels) || !reflect.DeepEqual(jsonapi.Wrap(reflect.New(st).Interface()).Attrs(), bt2.Attrs) {
					fail("copy-shares-structure", "editing the structure reported by a copy / new instance changed what the wrapper or a later instance reports")
				}
				// the wrapper reads the struct, whenever the struct was filled
				v := reflect.New(st)
				lw := jsonapi.Wrap(v.Interface())
				if idf := v.Elem().FieldByName("ID"); idf.Kind() == reflect.String {
					idf.SetString("filled-after-wrap")
					if lw.Get("id") != "filled-after-wrap" || lw.GetID() != "filled-after-wrap" || lw.Copy().Get("id") != "filled-after-wrap" {
						fail("accepted-struct-field-not-kept", fmt.Sprintf("struct filled after Wrap: id reads %q", lw.GetID()))
					}
				}
			}); p {
				fail("accepted-struct-method-panics", fmt.Sprint(pv))
			}
		}
	}
	var descs []string
	for _, f := range fs {
		descs = append(descs, fmt.Sprintf("%s %s `%s`", f.name, f.typ, f.tag()))
	}
	feature := fmt.Sprintf("%s check=%v fields=%d", how, checkErr == nil, min(len(fs), 6))
	c.count(fmt.Sprintf("check=%v", checkErr == nil))
	obs := oL([]string{oB(checkErr == nil), bobs, wobs})
	k := c.add("struct", "struct { "+strings.Join(descs, "; ")+" }", feature, false,
		fmt.Sprintf("(run_c20 %s %s)", gStructDesc(fs), gStrs(names)), obs, key, detail)
	k.Replay = how
}

// namedID is a defined type whose kind is string.
type namedID string

var c20Types = []reflect.Type{
	reflect.TypeOf(""), reflect.TypeOf(int(0)), reflect.TypeOf(int8(0)), reflect.TypeOf(uint64(0)), reflect.TypeOf(false), reflect.TypeOf(time.Time{}),
	reflect.TypeOf([]byte{}), reflect.TypeOf((*string)(nil)), reflect.TypeOf((*int16)(nil)), reflect.TypeOf((*time.Time)(nil)), reflect.TypeOf((*[]byte)(nil)),
	reflect.TypeOf([]string{}), reflect.TypeOf(float64(0)), reflect.TypeOf((*[]string)(nil)), reflect.TypeOf([]int{}), reflect.TypeOf(map[string]string{}),
}

var c20APITags = []string{"attr", "rel", "rel,", "rel,other", "rel,other,inv", "rel,a,b,c", "unknown", "", "attr,x", "relx", "rel, other, inv", " attr"}

func c20RandField(r *rng, i int) sfieldSpec {
	f := sfieldSpec{name: fmt.Sprintf("F%d", i), typ: pick(r, c20Types)}
	if r.chance(5, 6) {
		f.hasJSON = true
		f.jsonTag = pick(r, []string{"a", "b", "c", "id", "", "x-y", "name", "a,omitempty", "b,string", ",omitempty", "-"})
	}
	if r.chance(5, 6) {
		f.hasAPI = true
		f.apiTag = pick(r, c20APITags)
	}
	return f
}

func c20ID(r *rng) sfieldSpec {
	f := sfieldSpec{name: "ID", typ: reflect.TypeOf("")}
	switch r.intn(8) {
	case 0:
		f.typ = reflect.TypeOf(int(0))
	case 1:
		f.typ = reflect.TypeOf((*string)(nil))
	}
	switch r.intn(8) {
	case 0:
	case 1:
		f.hasJSON, f.jsonTag = true, "identifier"
	default:
		f.hasJSON, f.jsonTag = true, "id"
	}
	switch r.intn(8) {
	case 0:
	case 1:
		f.hasAPI, f.apiTag = true, ""
	default:
		f.hasAPI, f.apiTag = true, pick(r, []string{"things", "t", "a-b"})
	}
	return f
}

// c20NamedID: an ID field of a defined type whose kind is string.  The struct
// descriptions of the model carry predeclared types only, so this is checked
// against the property's text alone: if Check accepts, the type is built
// under the tag's name and the wrapper agrees with it.
func c20NamedID(c *ctx, idTag string) {
	st := reflect.StructOf([]reflect.StructField{
		{Name: "ID", Type: reflect.TypeOf(namedID("")), Tag: reflect.StructTag(fmt.Sprintf(`json:"id" api:%q`, idTag))},
		{Name: "F0", Type: reflect.TypeOf(""), Tag: `json:"label" api:"attr"`},
		{Name: "F1", Type: reflect.TypeOf(""), Tag: reflect.StructTag(fmt.Sprintf(`json:"owner" api:"rel,users,%s"`, idTag))},
	})
	var key, detail string
	fail := func(k, d string) {
		if key == "" {
			key, detail = k, d
		}
	}
	var checkErr error
	if p, pv := guard(func() { checkErr = jsonapi.Check(reflect.New(st).Elem().Interface()) }); p {
		fail("check-panics", fmt.Sprint(pv))
		checkErr = fmt.Errorf("panic")
	}
	var typ jsonapi.Type
	var berr error
	pb, pvb := guard(func() { typ, berr = jsonapi.BuildType(reflect.New(st).Interface()) })
	var w *jsonapi.Wrapper
	pw, pvw := guard(func() { w = jsonapi.Wrap(reflect.New(st).Interface()) })
	if checkErr != nil {
		if !pb && berr == nil {
			fail("rejected-struct-buildtype-succeeds", checkErr.Error())
		}
		if !pw {
			fail("rejected-struct-wrap-succeeds", checkErr.Error())
		}
	} else {
		switch {
		case pb:
			fail("accepted-struct-buildtype-panics", fmt.Sprint(pvb))
		case berr != nil:
			fail("accepted-struct-buildtype-fails", berr.Error())
		case typ.Name != idTag || typ.Rels["owner"].FromType != idTag || len(typ.Attrs) != 1 || len(typ.Rels) != 1:
			fail("built-type-differs-from-tags", fmt.Sprintf("name %q, owner.FromType %q, want %q", typ.Name, typ.Rels["owner"].FromType, idTag))
		}
		if pw {
			fail("accepted-struct-wrap-panics", fmt.Sprint(pvw))
		} else if p, pv := guard(func() {
			if w.GetType().Name != idTag || !reflect.DeepEqual(w.Attrs(), typ.Attrs) || !reflect.DeepEqual(w.Rels(), typ.Rels) {
				fail("wrapper-type-differs-from-built-type", fmt.Sprintf("wrapper says %q", w.GetType().Name))
			}
			// a value of the field's own type
			w.Set("id", namedID("v1"))
			w.Set("label", "x")
			w.Set("owner", "u1")
			if w.Get("id") != "v1" || w.GetID() != "v1" || w.Get("label") != "x" || w.Get("owner") != "u1" {
				fail("accepted-struct-field-not-kept", fmt.Sprintf("id reads %q", w.Get("id")))
			}
			cp := w.Copy()
			if cp.Get("id") != "v1" || cp.GetType().Name != idTag {
				fail("accepted-struct-copy-differs", fmt.Sprintf("copy id %q type %q", cp.Get("id"), cp.GetType().Name))
			}
			_ = jsonapi.MarshalResource(w, "/", []string{"label", "owner"}, map[string][]string{idTag: {"owner"}})
			_ = w.New()
		}); p {
			fail("accepted-struct-method-panics", fmt.Sprint(pv))
		}
	}
	how := fmt.Sprintf("ID of a defined string type, api:%q, check=%v", idTag, checkErr == nil)
	k := c.add("named-id", how, how, false, oL(nil), oL(nil), key, detail)
	k.Replay = how
}

// C20Base is embedded by c20Emb, which gets its ID (and one attribute) by promotion.
type C20Base struct {
	ID      string `json:"id" api:"embedded"`
	Created string `json:"created" api:"attr"`
}

type c20Emb struct {
	C20Base
	Title string   `json:"title" api:"attr"`
	Refs  []string `json:"refs" api:"rel,embedded"`
}

type c20Times struct {
	ID string     `json:"id" api:"times"`
	At time.Time  `json:"at" api:"attr"`
	P  *time.Time `json:"p" api:"attr"`
}

// c20Declared: struct shapes reflect.StructOf cannot build (an embedded struct) and
// values of a field's type that encoding/json refuses (years outside 0..9999).
// Oracle only: accepted => built type and wrapper agree, every declared field can be
// read, written and marshaled without a panic; rejected => BuildType fails, Wrap refuses.
func c20Declared(c *ctx, name string, mk func() any, sets map[string]any) {
	var key, detail string
	fail := func(k, d string) {
		if key == "" {
			key, detail = k, d
		}
	}
	var checkErr error
	if p, pv := guard(func() { checkErr = jsonapi.Check(reflect.ValueOf(mk()).Elem().Interface()) }); p {
		fail("check-panics", fmt.Sprint(pv))
		checkErr = fmt.Errorf("panic")
	}
	var typ jsonapi.Type
	var berr error
	pb, pvb := guard(func() { typ, berr = jsonapi.BuildType(mk()) })
	var w *jsonapi.Wrapper
	pw, pvw := guard(func() { w = jsonapi.Wrap(mk()) })
	if checkErr != nil {
		if !pb && berr == nil {
			fail("rejected-struct-buildtype-succeeds", checkErr.Error())
		}
		if !pw {
			fail("rejected-struct-wrap-succeeds", checkErr.Error())
		}
	} else {
		switch {
		case pb:
			fail("accepted-struct-buildtype-panics", fmt.Sprint(pvb))
		case berr != nil:
			fail("accepted-struct-buildtype-fails", berr.Error())
		case pw:
			fail("accepted-struct-wrap-panics", fmt.Sprint(pvw))
		default:
			if p, pv := guard(func() {
				if w.GetType().Name != typ.Name || !reflect.DeepEqual(w.Attrs(), typ.Attrs) || !reflect.DeepEqual(w.Rels(), typ.Rels) {
					fail("wrapper-type-differs-from-built-type", fmt.Sprintf("wrapper %s, built type %s", oStruct(w), oType(typ)))
				}
				fresh := typ.New()
				for _, r := range []jsonapi.Resource{w, fresh} {
					for n := range typ.Attrs {
						_ = r.Get(n)
					}
					for n := range typ.Rels {
						_ = r.Get(n)
					}
					for n, v := range sets {
						r.Set(n, v)
						if !sameValue(r.Get(n), v) {
							fail("accepted-struct-field-not-kept", n)
						}
					}
					var fields []string
					for n := range typ.Attrs {
						fields = append(fields, n)
					}
					_ = jsonapi.MarshalResource(r, "/", fields, nil)
					if cp, ok := r.(jsonapi.Copier); ok {
						_ = cp.Copy()
					}
				}
			}); p {
				fail("accepted-struct-method-panics", fmt.Sprint(pv))
			}
		}
	}
	how := fmt.Sprintf("declared struct %s, check=%v", name, checkErr == nil)
	k := c.add("named-id", how, how, false, oL(nil), oL(nil), key, detail)
	k.Replay = how
}

// Two struct types that print the same name ("main.rec"): declared in two functions.
func c20RecA() any {
	type rec struct {
		ID string `json:"id" api:"recs"`
		A  string `json:"a" api:"attr"`
	}
	return &rec{}
}

func c20RecB() any {
	type rec struct {
		ID string   `json:"id" api:"recs2"`
		B  int      `json:"b" api:"attr"`
		R  []string `json:"r" api:"rel,recs"`
	}
	return &rec{}
}

func c20RecBad() any {
	type rec struct {
		ID int            `json:"id" api:"recs"`
		A  map[string]int `json:"a" api:"attr"`
	}
	return &rec{}
}

// c20SameName wraps both, in either order, after the other one has been used
// (oracle only: each wrapper and built type must be its own struct's).
func c20SameName(c *ctx, bFirst bool) {
	var key, detail string
	p, pv := guard(func() {
		mk := []func() any{c20RecA, c20RecB}
		want := []struct {
			name  string
			attrs []string
			rels  []string
			vals  map[string]any
		}{{"recs", []string{"a"}, nil, map[string]any{"a": "x"}}, {"recs2", []string{"b"}, []string{"r"}, map[string]any{"b": 7, "r": []string{"1"}}}}
		order := []int{0, 1, 0, 1}
		if bFirst {
			order = []int{1, 0, 1, 0}
		}
		for _, i := range order {
			w := jsonapi.Wrap(mk[i]())
			typ, err := jsonapi.BuildType(mk[i]())
			if err != nil {
				key, detail = "accepted-struct-buildtype-fails", err.Error()
				return
			}
			var as, rs []string
			for k := range w.Attrs() {
				as = append(as, k)
			}
			for k := range w.Rels() {
				rs = append(rs, k)
			}
			sort.Strings(as)
			sort.Strings(rs)
			if w.GetType().Name != want[i].name || typ.Name != want[i].name || !reflect.DeepEqual(as, want[i].attrs) || !reflect.DeepEqual(rs, want[i].rels) ||
				!reflect.DeepEqual(w.Attrs(), typ.Attrs) || !reflect.DeepEqual(w.Rels(), typ.Rels) {
				key, detail = "built-type-differs-from-tags", fmt.Sprintf("struct %d: wrapper says %s %v %v, type says %s", i, w.GetType().Name, as, rs, typ.Name)
				return
			}
			for k, v := range want[i].vals {
				w.Set(k, v)
				if !reflect.DeepEqual(w.Get(k), v) {
					key, detail = "accepted-struct-field-not-kept", k
				}
			}
			_ = w.Copy()
			_ = w.New()
		}
	})
	if p {
		key, detail = "accepted-struct-method-panics", fmt.Sprint(pv)
	}
	// a third one of that name, which Check rejects: Wrap must refuse it all the same
	if key == "" {
		var cerr error
		_, _ = guard(func() { cerr = jsonapi.Check(reflect.ValueOf(c20RecBad()).Elem().Interface()) })
		if pw, _ := guard(func() { jsonapi.Wrap(c20RecBad()) }); !pw && cerr != nil {
			key, detail = "rejected-struct-wrap-succeeds", cerr.Error()
		}
		if _, berr := jsonapi.BuildType(c20RecBad()); berr == nil && cerr != nil {
			key, detail = "rejected-struct-buildtype-succeeds", cerr.Error()
		}
	}
	how := fmt.Sprintf("two struct types printing the same name, second first=%v", bFirst)
	k := c.add("named-id", how, how, false, oL(nil), oL(nil), key, detail)
	k.Replay = how
}

// wcopyCase: a struct-backed resource after a Set history, then Copy: the
// outcome and everything the copy reads, against Model/WrapCopy.v.
func wcopyCase(c *ctx, t typeSpec, ops []setOp, how string) {
	fields := append([]string{"id"}, t.fieldNames()...)
	var gops, descs []string
	for _, o := range ops {
		gops = append(gops, gPair(gStr(o.key), gValue(o.val)))
		descs = append(descs, fmt.Sprintf("Set(%q, %s)", o.key, descValue(o.val)))
	}
	var key, detail string
	obs := ""
	var w *jsonapi.Wrapper
	if p, _ := guard(func() {
		w = t.newWrapped()
		for _, o := range ops {
			w.Set(o.key, o.val)
		}
	}); p {
		obs = oPanic()
	} else {
		var cp jsonapi.Resource
		if p, pv := guard(func() { cp = w.Copy() }); p {
			obs = oC("ok", oPanic())
			key, detail = "accepted-struct-copy-panics", fmt.Sprint(pv)
		} else {
			obs = oC("ok", oOk(oL([]string{oStruct(cp), dumpRes(cp, fields)})))
			for _, f := range fields {
				if !sameValue(cp.Get(f), w.Get(f)) {
					key, detail = "copy-reads-another-value", fmt.Sprintf("%s: %s vs %s", f, descValue(cp.Get(f)), descValue(w.Get(f)))
				}
			}
		}
		if p, pv := guard(func() { _ = w.New() }); p && key == "" {
			key, detail = "accepted-struct-new-panics", fmt.Sprint(pv)
		}
	}
	desc := fmt.Sprintf("type %s fields %v: %s; Copy", t.name, t.fieldNames(), strings.Join(descs, "; "))
	k := c.add("wcopy", desc, fmt.Sprintf("fields=%d ops=%d", len(t.fields), min(len(ops), 12)), false,
		fmt.Sprintf("(run_wcopy %s %s %s)", t.gDesc(), gList(gops), gStrs(fields)), obs, key, detail)
	k.Replay = how
}

func runWCopies(c *ctx) {
	all := allKindsSpec("alltypes", "other")
	for _, f := range all.fields {
		if f.rel {
			continue
		}
		for _, v := range dictValues(f.code) {
			if f.nullable {
				v = ptrTo(v)
			}
			wcopyCase(c, all, []setOp{{f.name, v}}, "dictionary "+f.name)
		}
	}
	// several fields of one kind, some set, some not: what the copy of one reads must not
	// come from another (repeated: Copy walks the fields in map order)
	many := typeSpec{name: "many4", fields: []fieldSpec{
		{rel: true, name: "r1", target: "other"}, {rel: true, name: "r2", target: "other"}, {rel: true, name: "r3", target: "other"}, {rel: true, name: "r4", target: "other"},
		{rel: true, name: "o1", toOne: true, target: "other"}, {rel: true, name: "o2", toOne: true, target: "other"},
		{name: "b1", code: 14}, {name: "b2", code: 14}, {name: "pb1", code: 14, nullable: true}, {name: "pb2", code: 14, nullable: true},
		{name: "s1", code: 1, nullable: true}, {name: "s2", code: 1, nullable: true}}}
	pb := []byte{7, 8}
	ps := "x"
	for mask := 1; mask < 16; mask += 3 {
		var ops []setOp
		for i, rn := range []string{"r1", "r2", "r3", "r4"} {
			if mask&(1<<i) != 0 {
				ops = append(ops, setOp{rn, []string{fmt.Sprint("t", i), "t9"}})
			}
		}
		if mask&1 != 0 {
			ops = append(ops, setOp{"o1", "u1"}, setOp{"b1", []byte{1, 2}}, setOp{"pb1", &pb}, setOp{"s1", &ps})
		} else {
			ops = append(ops, setOp{"o2", "u2"}, setOp{"b2", []byte{3}}, setOp{"pb2", &pb}, setOp{"s2", &ps})
		}
		for k := 0; k < 3; k++ {
			wcopyCase(c, many, ops, "several-fields-of-a-kind")
		}
	}
	n := 60
	if c.thorough() {
		n = 1500
	}
	for i := 0; i < n; i++ {
		t := all
		if c.r.chance(2, 3) {
			t = randTypeSpec(c.r, pick(c.r, []string{"t", "users", "a-b"}), 8, []string{"t", "other"})
		}
		wcopyCase(c, t, randSetOps(c.r, t, c.r.intn(20)), "random")
	}
}

func runC20(c *ctx) {
	runWCopies(c)
	for _, tag := range []string{"devices", "t", "a-b"} {
		c20NamedID(c, tag)
	}
	c20SameName(c, false)
	c20SameName(c, true)
	c20Declared(c, "with an embedded struct that brings the ID", func() any { return &c20Emb{} }, map[string]any{"title": "x", "refs": []string{"1"}})
	far, neg := time.Date(10000, 1, 1, 0, 0, 0, 0, time.UTC), time.Date(-1, 1, 1, 0, 0, 0, 0, time.UTC)
	c20Declared(c, "time attributes set to years 10000 and -1", func() any { return &c20Times{} }, map[string]any{"at": far, "p": &neg})
	c20Declared(c, "time attributes set to years -1 and 10000", func() any { return &c20Times{} }, map[string]any{"at": neg, "p": &far})
	goodID := sfieldSpec{name: "ID", typ: reflect.TypeOf(""), hasJSON: true, jsonTag: "id", hasAPI: true, apiTag: "things"}
	// single-field variations, exhaustively: every type x every api tag x json tag forms
	for _, t := range c20Types {
		for _, api := range c20APITags {
			for _, js := range []string{"a", "", "id", "a,omitempty"} {
				f := sfieldSpec{name: "F0", typ: t, hasJSON: true, jsonTag: js, hasAPI: true, apiTag: api}
				c20Case(c, []sfieldSpec{goodID, f}, false, "single-field")
			}
			c20Case(c, []sfieldSpec{goodID, {name: "F0", typ: t, hasAPI: true, apiTag: api}}, false, "single-field-nojson")
		}
	}
	// ID variations
	for _, idt := range []reflect.Type{reflect.TypeOf(""), reflect.TypeOf(int(0)), reflect.TypeOf((*string)(nil)), reflect.TypeOf([]byte{})} {
		for _, js := range []string{"id", "identifier", "", "-"} {
			for _, api := range []string{"things", ""} {
				id := sfieldSpec{name: "ID", typ: idt, hasJSON: js != "-", jsonTag: strings.Trim(js, "-"), hasAPI: true, apiTag: api}
				c20Case(c, []sfieldSpec{id, {name: "F0", typ: reflect.TypeOf(""), hasJSON: true, jsonTag: "a", hasAPI: true, apiTag: "attr"}}, false, "id-variation")
			}
		}
	}
	c20Case(c, []sfieldSpec{{name: "F0", typ: reflect.TypeOf(""), hasJSON: true, jsonTag: "a", hasAPI: true, apiTag: "attr"}}, false, "no-id")
	// duplicate json tags, also with an untagged field, in both orders
	str := reflect.TypeOf("")
	c20Case(c, []sfieldSpec{goodID, {name: "F0", typ: str, hasJSON: true, jsonTag: "a", hasAPI: true, apiTag: "attr"}, {name: "F1", typ: reflect.TypeOf(int(0)), hasJSON: true, jsonTag: "a", hasAPI: true, apiTag: "attr"}}, false, "duplicate-json")
	c20Case(c, []sfieldSpec{goodID, {name: "F0", typ: reflect.TypeOf(int(0)), hasJSON: true, jsonTag: "a"}, {name: "F1", typ: str, hasJSON: true, jsonTag: "a", hasAPI: true, apiTag: "attr"}}, false, "duplicate-json-untagged-first")
	c20Case(c, []sfieldSpec{goodID, {name: "F0", typ: str, hasJSON: true, jsonTag: "a", hasAPI: true, apiTag: "attr"}, {name: "F1", typ: reflect.TypeOf(int(0)), hasJSON: true, jsonTag: "a"}}, false, "duplicate-json-untagged-last")
	// pairs of tagged fields: what one field declares must not leak into the next
	for _, a := range c20APITags {
		for _, b := range c20APITags {
			for _, ta := range []reflect.Type{str, reflect.TypeOf([]string{})} {
				fa := sfieldSpec{name: "F0", typ: ta, hasJSON: true, jsonTag: "a", hasAPI: true, apiTag: a}
				fb := sfieldSpec{name: "F1", typ: str, hasJSON: true, jsonTag: "b", hasAPI: true, apiTag: b}
				c20Case(c, []sfieldSpec{goodID, fa, fb}, false, "field-pair")
			}
		}
	}
	// the ID field anywhere but first, next to fields of other types
	for _, t := range []reflect.Type{reflect.TypeOf(int(0)), str, reflect.TypeOf([]string{})} {
		c20Case(c, []sfieldSpec{{name: "F0", typ: t, hasJSON: true, jsonTag: "a", hasAPI: true, apiTag: "attr"}, goodID}, false, "id-not-first")
		c20Case(c, []sfieldSpec{{name: "F0", typ: t, hasJSON: true, jsonTag: "a"}, goodID, {name: "F1", typ: str, hasJSON: true, jsonTag: "b", hasAPI: true, apiTag: "attr"}}, false, "id-not-first")
	}
	n := 400
	if c.thorough() {
		n = 8000
	}
	for i := 0; i < n; i++ {
		var fs []sfieldSpec
		id := goodID
		if c.r.chance(1, 4) {
			id = c20ID(c.r)
		}
		k := c.r.intn(8)
		pos := 0
		if k > 0 {
			pos = c.r.intn(k + 1)
		}
		for j := 0; j < k; j++ {
			if j == pos {
				fs = append(fs, id)
			}
			fs = append(fs, c20RandField(c.r, j))
		}
		if pos >= k {
			fs = append(fs, id)
		}
		c20Case(c, fs, c.r.chance(1, 4), "random")
	}
}

func init() {
	register("C20", []string{"Model.GoTime", "Gen.TypeGo", "Model.Schema", "Model.Value", "Model.SoftRes", "Model.Wrapper", "Model.Resource", "Model.WrapCopy", "Model.C14", "Model.C17", "Model.C20"}, runC20)
}
