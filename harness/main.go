package main

import (
	"fmt"
	"os"
	"strconv"
)

func usage() {
	fmt.Fprintln(os.Stderr, "usage: verifharness xlate <repo> <outdir> | run <prop> <tier> <seed> <outdir>")
	os.Exit(2)
}

func main() {
	if len(os.Args) < 2 {
		usage()
	}
	switch os.Args[1] {
	case "xlate":
		if len(os.Args) != 4 {
			usage()
		}
		if err := cmdXlate(os.Args[2], os.Args[3]); err != nil {
			os.Exit(3)
		}
	case "run":
		if len(os.Args) != 6 {
			usage()
		}
		prop, tier := os.Args[2], os.Args[3]
		seed, err := strconv.ParseUint(os.Args[4], 10, 64)
		if err != nil {
			usage()
		}
		f, ok := runners[prop]
		if !ok {
			fmt.Fprintln(os.Stderr, "unknown property", prop)
			os.Exit(2)
		}
		c := &ctx{prop: prop, tier: tier, seed: seed, r: newRng(seed), counts: map[string]int{}, imports: runnerImports[prop]}
		f(c)
		if err := c.write(os.Args[5]); err != nil {
			fmt.Fprintln(os.Stderr, err)
			os.Exit(2)
		}
	case "racer":
		os.Exit(cmdRacer(os.Args[2:]))
	default:
		usage()
	}
}
