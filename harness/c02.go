package main

import (
	"fmt"
	"reflect"
	"sort"
	"strings"

	"github.com/mfcochauxlaberge/jsonapi"
)

func oFullResource(r jsonapi.Resource) string {
	t := r.GetType()
	fields := append([]string{"id"}, typeFieldNames(jsonapi.Type{Attrs: r.Attrs(), Rels: r.Rels()})...)
	return oL([]string{oS(t.Name), dumpRes(r, fields)})
}

func oMembersOfAny(v any) string {
	n := jsonOfValue(v)
	if n == nil || n.kind != "obj" {
		return oL(nil)
	}
	idx := make([]int, len(n.keys))
	for i := range idx {
		idx[i] = i
	}
	sort.Slice(idx, func(a, b int) bool { return n.keys[idx[a]] < n.keys[idx[b]] })
	var it []string
	for _, i := range idx {
		it = append(it, oL([]string{oS(n.keys[i]), n.vals[i].obs()}))
	}
	return oL(it)
}

func oError(e jsonapi.Error) string {
	ks := make([]string, 0, len(e.Links))
	for k := range e.Links {
		ks = append(ks, k)
	}
	sort.Strings(ks)
	var ls []string
	for _, k := range ks {
		ls = append(ls, oL([]string{oS(k), oS(e.Links[k])}))
	}
	return oL([]string{oS(e.ID), oS(e.Code), oS(e.Status), oS(e.Title), oS(e.Detail), oL(ls), oMembersOfAny(e.Source), oMembersOfAny(e.Meta)})
}

func oUDoc(d *jsonapi.Document) string {
	var data string
	switch x := d.Data.(type) {
	case nil:
		data = oC("nil")
	case jsonapi.Resource:
		data = oC("res", oFullResource(x))
	case jsonapi.Collection:
		var it []string
		for i := 0; i < x.Len(); i++ {
			it = append(it, oFullResource(x.At(i)))
		}
		data = "(OC \"col\" " + gList(it) + ")"
	default:
		data = oC("other")
	}
	var errs, incs []string
	for _, e := range d.Errors {
		errs = append(errs, oError(e))
	}
	for _, r := range d.Included {
		incs = append(incs, oFullResource(r))
	}
	return oL([]string{data, oL(errs), oL(incs), oMembersOfAny(map[string]any(d.Meta))})
}

func gFieldSel(m map[string][]string) string { return gRelData(m) }

// selectedEqual compares the selected fields of a source resource with the
// resource that came back.
func selectedEqual(d docSpec, src, got jsonapi.Resource) string {
	tn := src.GetType().Name
	if got.GetType().Name != tn {
		return fmt.Sprintf("type %q became %q", tn, got.GetType().Name)
	}
	if src.Get("id") != got.Get("id") {
		return fmt.Sprintf("id %q became %q", src.Get("id"), got.Get("id"))
	}
	t := d.sc.spec(tn)
	sel := map[string]bool{}
	for _, f := range d.fields[tn] {
		sel[f] = true
	}
	want := map[string]bool{}
	for _, f := range d.relData[tn] {
		want[f] = true
	}
	for _, f := range t.fields {
		if !sel[f.name] || (f.rel && !want[f.name]) {
			continue
		}
		if !sameField(f, src.Get(f.name), got.Get(f.name)) {
			return fmt.Sprintf("%s.%s: %s became %s", tn, f.name, descValue(src.Get(f.name)), descValue(got.Get(f.name)))
		}
	}
	return ""
}

func c02Oracle(d docSpec, src *jsonapi.Document, srcData []jsonapi.Resource, srcInc []jsonapi.Resource, got *jsonapi.Document) (string, string) {
	if len(d.errors) > 0 {
		if got.Data != nil {
			return "errors-document-has-data", ""
		}
		if len(got.Errors) != len(d.errors) {
			return "errors-count-differs", fmt.Sprintf("%d became %d", len(d.errors), len(got.Errors))
		}
		for i, e := range src.Errors {
			g := got.Errors[i]
			if e.ID != g.ID || e.Code != g.Code || e.Status != g.Status || e.Title != g.Title || e.Detail != g.Detail {
				return "error-object-differs", fmt.Sprintf("error %d", i)
			}
			if len(e.Links)+len(g.Links) > 0 && !reflect.DeepEqual(e.Links, g.Links) {
				return "error-object-differs", fmt.Sprintf("error %d links", i)
			}
			if oMembersOfAny(e.Source) != oMembersOfAny(g.Source) || oMembersOfAny(e.Meta) != oMembersOfAny(g.Meta) {
				return "error-object-differs", fmt.Sprintf("error %d source/meta", i)
			}
		}
		// top-level meta survives in error documents too
		if oMembersOfAny(map[string]any(src.Meta)) != oMembersOfAny(map[string]any(got.Meta)) {
			return "meta-differs", "error document"
		}
		return "", ""
	}
	// same kind of primary data
	switch d.dataKind {
	case "nil", "nil-identifiers":
		if got.Data != nil {
			return "data-kind-differs", "null data became non-null"
		}
	case "resource", "identifier":
		r, ok := got.Data.(jsonapi.Resource)
		if !ok {
			return "data-kind-differs", fmt.Sprintf("single became %T", got.Data)
		}
		if d.dataKind == "resource" {
			if m := selectedEqual(d, srcData[0], r); m != "" {
				return "data-resource-differs", m
			}
		} else if r.GetType().Name != d.idents[0].Type || r.Get("id") != d.idents[0].ID {
			return "data-identifier-differs", ""
		}
	default:
		col, ok := got.Data.(jsonapi.Collection)
		if !ok {
			return "data-kind-differs", fmt.Sprintf("list became %T", got.Data)
		}
		if d.dataKind == "identifiers" {
			if col.Len() != len(d.idents) {
				return "data-length-differs", ""
			}
			for i, id := range d.idents {
				if col.At(i).GetType().Name != id.Type || col.At(i).Get("id") != id.ID {
					return "data-identifier-differs", fmt.Sprintf("position %d", i)
				}
			}
		} else {
			if col.Len() != len(srcData) {
				return "data-length-differs", fmt.Sprintf("%d became %d", len(srcData), col.Len())
			}
			for i := range srcData {
				if m := selectedEqual(d, srcData[i], col.At(i)); m != "" {
					return "data-resource-differs", fmt.Sprintf("position %d: %s", i, m)
				}
			}
		}
	}
	// included: same type/ID pairs with equal values
	if len(got.Included) != len(srcInc) {
		return "included-count-differs", fmt.Sprintf("%d became %d", len(srcInc), len(got.Included))
	}
	for _, s := range srcInc {
		found := false
		for _, g := range got.Included {
			if g.GetType().Name == s.GetType().Name && g.Get("id") == s.Get("id") {
				found = true
				if m := selectedEqual(d, s, g); m != "" {
					return "included-resource-differs", m
				}
			}
		}
		if !found {
			return "included-resource-missing", fmt.Sprintf("%s %q", s.GetType().Name, s.Get("id"))
		}
	}
	if oMembersOfAny(map[string]any(src.Meta)) != oMembersOfAny(map[string]any(got.Meta)) {
		return "meta-differs", ""
	}
	return "", ""
}

func c02Case(c *ctx, d docSpec, how string, prop string) {
	schema := d.sc.build()
	env := d.env()
	var obs, key, detail string
	var self string
	p, pv := guard(func() {
		doc, u := d.build()
		self = doc.PrePath + u.String()
		// source resources, rebuilt (marshaling sorts to-many IDs in place)
		var srcData, srcInc []jsonapi.Resource
		for _, rs := range d.data {
			srcData = append(srcData, d.buildRes(rs))
		}
		for _, rs := range d.included {
			srcInc = append(srcInc, d.buildRes(rs))
		}
		out, err := jsonapi.MarshalDocument(doc, u)
		if err != nil {
			obs = oC("fail")
			return
		}
		tree := parseJSON(out)
		if tree == nil {
			obs = oC("invalid-json")
			key, detail = "marshal-output-not-json", string(out)
			return
		}
		env.addTree(tree)
		got, uerr := jsonapi.UnmarshalDocument(out, schema)
		if uerr != nil {
			obs = oL([]string{tree.obs(), oC("fail")})
			key, detail = "roundtrip-rejected", fmt.Sprintf("%v", uerr)
			return
		}
		obs = oL([]string{tree.obs(), oOk(oUDoc(got))})
		if prop == "C02" {
			key, detail = c02Oracle(d, doc, srcData, srcInc, got)
		}
	})
	if p {
		obs = oPanic()
		key, detail = "document-roundtrip-panics", fmt.Sprint(pv)
	}
	feature := fmt.Sprintf("%s n=%d inc=%d meta=%v errors=%d", d.dataKind, min(len(d.data)+len(d.idents), 13), len(d.included), d.meta != nil, min(len(d.errors), 3))
	c.count("data:" + d.dataKind)
	k := c.add("doc-roundtrip", d.desc(), feature, false,
		fmt.Sprintf("(run_doc_roundtrip %s %s %s %s %s)", env.gallina(), d.sc.gallina(), d.gallina(), gFieldSel(d.fields), gStr(self)),
		obs, key, detail)
	k.Replay = how + ": " + strings.TrimSpace(d.desc())
}

func runC02(c *ctx) {
	n := 220
	if c.thorough() {
		n = 5000
	}
	// corpus: distinct type/ID pairs whose concatenation coincides ("tag"+"s1" = "tags"+"1"), any order
	{
		ta := typeSpec{name: "tag", fields: []fieldSpec{{name: "a", code: 1}}}
		tb := typeSpec{name: "tags", fields: []fieldSpec{{name: "a", code: 1}}}
		sc := schemaSpec{types: []typeSpec{ta, tb}, wrapped: map[string]bool{}}
		incs := []resSpec{{tn: "tag", ops: []setOp{{"id", "s1"}, {"a", "one"}}}, {tn: "tags", ops: []setOp{{"id", "1"}, {"a", "two"}}}, {tn: "tags", ops: []setOp{{"id", "2"}, {"a", "three"}}},
			{tn: "tag", ops: []setOp{{"id", "1"}, {"a", "four"}}}}
		for _, order := range [][]int{{0, 1, 2}, {1, 0, 2}, {2, 1, 0}, {3, 1, 0}, {0, 3}} {
			d := docSpec{sc: sc, dataKind: "resource", urlFrags: []string{"tag", "x"}, prepath: "/p",
				data:   []resSpec{{tn: "tag", ops: []setOp{{"id", "x"}, {"a", "0"}}}},
				fields: map[string][]string{"tag": {"a"}, "tags": {"a"}}, relData: map[string][]string{}}
			for _, i := range order {
				d.included = append(d.included, incs[i])
			}
			c02Case(c, d, "corpus joined keys", "C02")
		}
	}
	for i := 0; i < n; i++ {
		d := randDoc(c.r)
		// the round trip speaks about documents whose field selection is complete
		// for the types present, or any selection (selected values only)
		c02Case(c, d, "random", "C02")
	}
}

func init() {
	imports := []string{"Model.GoTime", "Gen.TypeGo", "Model.Schema", "Model.Value", "Model.Json", "Model.SoftRes", "Model.Wrapper", "Model.Resource", "Model.Unmarshal", "Model.Document", "Model.C17", "Model.C01", "Model.C02"}
	register("C02", imports, runC02)
}
